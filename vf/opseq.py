"""E1: operation-history exploration of the writer against a reference model.

A *letter* is one completed writing session ``(kind, pattern, reopen)``; a
history is a sequence of letters executed on a real dataset directory.  After
the last session of every explored history all invariants of C04 / C05
(acceptance) / C08 / C10 / C16 (recorded digests) / C03 (write order) are
evaluated by an independent recount from the files on disk.  BFS over
histories with state caching on the canonicalised directory.
"""
from __future__ import annotations

import collections
import hashlib
import json
import shutil
import time
import traceback
from pathlib import Path

from vf import core, ds as D

SHARD_EXT = (".fb", ".npz", ".tfrec")

KINDS_Q = ("root", "x", "y", "x/y", "multi")
# ("over" = overlapping sessions exists as a kind for experiments only: the
# unchanged library loses the inner session when it goes into a NEW
# sub-directory, i.e. overlapping sessions are not a supported history and
# the properties quantify over *sequences* of completed sessions.)
KINDS_T = KINDS_Q + ("multi3", "empty", "rej")
PATTERNS = ("train", "test", "mix", "holdout")


def alphabet(tier_or_kinds, patterns=PATTERNS) -> list[tuple]:
    kinds = tier_or_kinds
    return [(k, p, r) for k in kinds for p in patterns for r in (0, 1)]


def session_items(pattern: str, eps: int) -> list[str]:
    """Splits of the examples of one writer, in write order."""
    if pattern == "train":
        return ["train"] * (eps + 1)
    if pattern == "test":
        return ["test"]
    if pattern == "mix":
        return ["train", "test", "train", "test", "train"]
    if pattern == "holdout":
        return ["holdout"] * eps
    if pattern == "train1":
        return ["train"]
    if pattern == "none":
        return []
    raise ValueError(pattern)


def feed(dataset_filler, items):
    """feed_writer of the multi-writer call (top level: picklable)."""
    with dataset_filler as f:
        for split, idt in items:
            f.write_example(values=D.example(idt), split=split)
    return [idt for _, idt in items]


def do_session(dataset, s: int, kind: str, pattern: str, eps: int, ref: dict,
               sessions: list) -> None:
    """Run session number ``s``; appends what was written to the reference
    model *after* the session completed."""
    from sedpack.io.dataset_filler import DatasetFiller
    written: list[tuple[str, tuple]] = []
    if kind in ("multi", "multi3"):
        w0 = [(sp, (s, 0, q))
              for q, sp in enumerate(session_items(pattern, eps))]
        first = w0[0][0] if w0 else "train"
        writers = [w0, [(first, (s, 1, 0))]]
        if kind == "multi3":
            writers = [w0, [], [(first, (s, 2, 0)), ("test", (s, 2, 1))]]
        res = dataset.write_multiprocessing(
            feed_writer=feed,
            custom_arguments=[(w,) for w in writers],
            single_process=True,
        )
        exp = [[idt for _, idt in w] for w in writers]
        if [list(map(tuple, r)) for r in res] != exp:
            raise AssertionError(
                f"VF-RETVAL multi-writer return values {res} != {exp}")
        for w in writers:
            written.extend(w)
    elif kind == "over":
        # two overlapping sessions in one thread: a root session that has
        # already rolled a shard, a complete session into sub-directory x
        # inside it, then the outer session goes on and exits
        items = session_items(pattern, eps)
        first = items[0]
        with dataset.filler() as f:
            q = 0
            for _ in range(eps + 1):
                f.write_example(values=D.example((s, 0, q)), split=first)
                written.append((first, (s, 0, q)))
                q += 1
            with DatasetFiller(dataset,
                               relative_path_from_split=Path("x")) as g:
                for j, sp in enumerate(items):
                    g.write_example(values=D.example((s, 1, j)), split=sp)
                    written.append((sp, (s, 1, j)))
            f.write_example(values=D.example((s, 0, q)), split=first)
            written.append((first, (s, 0, q)))
    else:
        items = [] if kind == "empty" else session_items(pattern, eps)
        if kind in ("root", "empty", "rej"):
            filler = dataset.filler()
        else:
            filler = DatasetFiller(dataset,
                                   relative_path_from_split=Path(kind))
        with filler as f:
            for q, sp in enumerate(items):
                f.write_example(values=D.example((s, 0, q)), split=sp)
                written.append((sp, (s, 0, q)))
            if kind == "rej" and items:
                # a rejected write (wrong shape) that the caller catches,
                # as the last call for every split touched
                for sp in dict.fromkeys(items):
                    bad = D.example((s, 9, 9))
                    bad["v"] = bad["v"][:1]
                    try:
                        f.write_example(values=bad, split=sp)
                        raise AssertionError("VF-ACCEPTED wrong shape")
                    except ValueError:
                        pass
    for sp, idt in written:
        ref.setdefault(sp, []).append(idt)
    sessions.append(written)


# ---------------------------------------------------------------------------
# oracle: independent recount
# ---------------------------------------------------------------------------
def inspect(root: Path, handle, ref: dict, eps: int, fmt: str,
            hashes=("sha256",)) -> tuple[list[tuple[str, str, str]], object]:
    """Returns (violations [(property, symptom, message)], canonical state)."""
    from sedpack.io import Dataset
    bad: list[tuple[str, str, str]] = []
    info = D.load_json(root / "dataset_info.json")
    struct = handle.dataset_structure
    listed: list[str] = []
    names: dict = {}
    canon = []
    found: dict[str, list] = {}

    def visit(rel: Path, doc: dict, recorded: dict, split: str):
        d = rel.parent
        total = 0
        nshards = 0
        cshards = []
        if doc.get("relative_path_self") != str(rel):
            bad.append(("C04", "self-path",
                        f"{rel}: relative_path_self is "
                        f"{doc.get('relative_path_self')}"))
        for sh in doc.get("shard_files", []):
            fi = sh["file_infos"][0]
            fp = Path(fi["file_path"])
            listed.append(str(fp))
            cnt = sh.get("number_of_examples", 0)
            if fp.parent != d:
                bad.append(("C04", "foreign-dir",
                            f"shard {fp} listed by {rel} is not in its "
                            f"directory"))
            if not (root / fp).is_file():
                bad.append(("C04", "missing-file",
                            f"listed shard {fp} does not exist"))
                continue
            try:
                got = D.decode_shard(struct, root / fp)
            except Exception as e:  # pylint: disable=broad-except
                bad.append(("C04", "undecodable",
                            f"shard {fp}: {type(e).__name__}: {e}"))
                continue
            found.setdefault(split, []).extend(got)
            if len(got) != cnt:
                bad.append(("C04", "shard-count",
                            f"shard {fp} records {cnt} examples, file holds "
                            f"{len(got)}"))
            if not 1 <= len(got) <= eps:
                bad.append(("C10", "shard-size",
                            f"shard {fp} holds {len(got)} examples "
                            f"(examples_per_shard={eps})"))
            real = tuple(
                hashlib.new(h, (root / fp).read_bytes()).hexdigest()
                for h in hashes) if all(
                    not h.startswith("xxh") for h in hashes) else None
            if real is not None and tuple(fi.get("hash_checksums",
                                                 ())) != real:
                bad.append(("C16", "shard-digest",
                            f"recorded digests of {fp} are "
                            f"{fi.get('hash_checksums')} expected {real}"))
            total += len(got)
            nshards += 1
            cshards.append((len(got), json.dumps(sh.get("custom_metadata", {}),
                                                 sort_keys=True),
                            tuple(got)))
        cchildren = []
        for ch in doc.get("children_shard_lists", []):
            crel = Path(ch["shard_list_info_file"]["file_path"])
            if crel.parent.parent != d or crel.name != "shards_list.json":
                bad.append(("C04", "child-dir",
                            f"child list {crel} of {rel} is not in a direct "
                            f"sub-directory"))
            if not (root / crel).is_file():
                bad.append(("C04", "missing-file",
                            f"listed child list {crel} does not exist"))
                continue
            real = tuple(
                hashlib.new(h, (root / crel).read_bytes()).hexdigest()
                for h in hashes) if all(
                    not h.startswith("xxh") for h in hashes) else None
            if real is not None and tuple(ch["shard_list_info_file"].get(
                    "hash_checksums", ())) != real:
                bad.append(("C16", "list-digest",
                            f"recorded digests of {crel} differ from the "
                            f"digest of the file"))
            cdoc = D.load_json(root / crel)
            ct, cn, cc = visit(crel, cdoc, ch, split)
            if ch.get("number_of_examples", 0) != ct:
                bad.append(("C04", "child-total",
                            f"{rel} records {ch.get('number_of_examples', 0)} "
                            f"examples for child {crel}, true total {ct}"))
            if ch.get("number_of_shards", 0) != cn:
                bad.append(("C04", "child-shards",
                            f"{rel} records {ch.get('number_of_shards', 0)} "
                            f"shards for child {crel}, true number {cn}"))
            total += ct
            nshards += cn
            cchildren.append((D.canon_name(crel.parent.name, names), cc))
        if doc.get("number_of_examples", 0) != total:
            bad.append(("C04", "list-total",
                        f"{rel} records total "
                        f"{doc.get('number_of_examples', 0)}, true sum "
                        f"{total}"))
        return total, nshards, (tuple((c, m) for c, m, _ in cshards),
                                tuple(cchildren))

    for split in sorted(info.get("splits", {})):
        rec = info["splits"][split]
        rel = Path(rec["shard_list_info_file"]["file_path"])
        if rel != Path(split) / "shards_list.json":
            bad.append(("C04", "split-path", f"split {split} -> {rel}"))
        if not (root / rel).is_file():
            bad.append(("C04", "missing-file",
                        f"split list {rel} does not exist"))
            continue
        real = tuple(
            hashlib.new(h, (root / rel).read_bytes()).hexdigest()
            for h in hashes) if all(
                not h.startswith("xxh") for h in hashes) else None
        if real is not None and tuple(rec["shard_list_info_file"].get(
                "hash_checksums", ())) != real:
            bad.append(("C16", "list-digest",
                        f"recorded digests of {rel} differ from the digest "
                        f"of the file"))
        t, n, c = visit(rel, D.load_json(root / rel), rec, split)
        if rec.get("number_of_examples", 0) != t:
            bad.append(("C04", "split-total",
                        f"dataset_info records {rec.get('number_of_examples')}"
                        f" examples in {split}, true total {t}"))
        if rec.get("number_of_shards", 0) != n:
            bad.append(("C04", "split-shards",
                        f"dataset_info records {rec.get('number_of_shards')} "
                        f"shards in {split}, true number {n}"))
        canon.append((split, c))

    dup = [k for k, v in collections.Counter(listed).items() if v > 1]
    if dup:
        bad.append(("C04", "listed-twice", f"shard files listed twice: {dup}"))
    on_disk = sorted(
        str(p) for p in D.all_files(root) if p.suffix in SHARD_EXT)
    unlisted = sorted(set(on_disk) - set(listed))
    if unlisted:
        bad.append(("C04", "unlisted",
                    f"shard files on disk but not listed: {unlisted}"))

    # handle == disk
    try:
        fresh = Dataset(root)
        if fresh._dataset_info.model_dump() != handle._dataset_info.model_dump(
        ):
            bad.append(("C04", "handle-stale",
                        "the description held by the writing handle differs "
                        "from what a fresh open reads"))
    except Exception as e:  # pylint: disable=broad-except
        bad.append(("C04", "reopen-fails",
                    f"Dataset(path) fails: {type(e).__name__}: {e}"))
        fresh = None

    # C05 acceptance
    for nm, h in (("kept", handle), ("reopened", fresh)):
        if h is None:
            continue
        try:
            h.check(show_progressbar=False)
            h.check(show_progressbar=False,
                    hash_checksums_values=h.current_metadata_checksums())
        except Exception as e:  # pylint: disable=broad-except
            bad.append(("C05", "check-rejects",
                        f"check() on the {nm} handle rejects a committed "
                        f"dataset: {type(e).__name__}: {str(e)[:200]}"))

    # C08: content == reference model ; C03: sessions in write order
    for split in sorted(set(ref) | set(found)):
        exp = ref.get(split, [])
        got = found.get(split, [])
        if sorted(got) != sorted(exp):
            miss = collections.Counter(exp) - collections.Counter(got)
            extra = collections.Counter(got) - collections.Counter(exp)
            bad.append(("C08", "content",
                        f"split {split}: missing {sorted(miss.elements())} "
                        f"unexpected {sorted(extra.elements())}"))
        if exp and fresh is not None:
            try:
                it = D.ids(fresh, split, "sync")
            except Exception as e:  # pylint: disable=broad-except
                bad.append(("C08", "iteration-fails",
                            f"iterating {split}: {type(e).__name__}: {e}"))
                continue
            if sorted(it) != sorted(got):
                # not a matter of order: iteration does not return what the
                # metadata on disk lists (C08: committed examples intact and
                # exactly the new ones added, as a reader sees them)
                miss = collections.Counter(got) - collections.Counter(it)
                extra = collections.Counter(it) - collections.Counter(got)
                for prop in ("C08",):
                    bad.append((prop, "iteration-content",
                                f"split {split}: a fresh handle iterates "
                                f"{len(it)} examples, the lists on disk hold "
                                f"{len(got)}: missing "
                                f"{sorted(miss.elements())} unexpected "
                                f"{sorted(extra.elements())}"))
            if it != got:
                bad.append(("C03", "iter-vs-listing",
                            f"split {split}: iteration order {it} differs "
                            f"from listing order {got}"))
            groups: dict = {}
            for idt in it:
                groups.setdefault(idt[0], []).append(idt)
            for s, g in groups.items():
                want = [i for i in exp if i[0] == s]
                if g != want and sorted(g) == sorted(want):
                    bad.append(("C03", "write-order",
                                f"split {split}: session {s} was written as "
                                f"{want} but is iterated as {g}"))
    for split in ref:
        if ref[split] and split not in info.get("splits", {}):
            bad.append(("C08", "split-lost", f"split {split} disappeared"))

    return bad, tuple(canon)


def check_fullness(root: Path, info: dict, eps: int, struct) -> list:
    """C10 second sentence: within one session, writer and split every shard
    except the last one written is full (no metadata changes here)."""
    bad = []
    for split, rec in info.get("splits", {}).items():
        per: dict = {}
        for rel, doc, _ in D.walk_lists(root, rec):
            for sh in doc.get("shard_files", []):
                fp = root / sh["file_infos"][0]["file_path"]
                if not fp.is_file():
                    continue
                try:
                    got = D.decode_shard(struct, fp)
                except Exception:  # pylint: disable=broad-except
                    continue
                for key in {(i[0], i[1]) for i in got}:
                    per.setdefault(key, []).append(
                        (min(i[2] for i in got if (i[0], i[1]) == key),
                         len(got)))
        for key, shards in per.items():
            shards.sort()
            for _, n in shards[:-1]:
                if n != eps:
                    bad.append(("C10", "not-full",
                                f"split {split}: session/writer {key} has a "
                                f"non-final shard with {n} < {eps} examples"))
    return bad


# ---------------------------------------------------------------------------
# one history
# ---------------------------------------------------------------------------
HASH_VARIANTS = {"nohash": (), "2hash": ("xxh32", "md5")}


def split_fmt(fmt: str) -> tuple[str, tuple, bool]:
    """'fb' -> ('fb', ('sha256',), False); 'fb/nohash+reads' -> ('fb', (),
    True): no checksum algorithms, and the dataset is opened, checked and
    iterated (in this process) after every session, not only the last."""
    fmt, plus, _ = fmt.partition("+reads")
    base, _, variant = fmt.partition("/")
    return base, HASH_VARIANTS.get(variant, ("sha256",)), bool(plus)


def run_history(fmt: str, eps: int, history: list, inspect_all=False) -> dict:
    """Execute the history on a fresh directory; invariants are evaluated
    after the last session (after every session if inspect_all)."""
    from sedpack.io import Dataset
    from sedpack.io.errors import DatasetExistsError
    root = core.fresh_dir("h")
    out = {"history": history, "violations": [], "key": None, "failed": False}
    try:
        fmt, hashes, reads = split_fmt(fmt)
        inspect_all = inspect_all or reads
        dataset = D.create(root, fmt=fmt, eps=eps, hashes=hashes)
        ref: dict = {}
        sessions: list = []
        for s, (kind, pattern, reopen) in enumerate(history):
            last = s == len(history) - 1
            if reopen:
                dataset = Dataset(root)
            if kind == "create":
                before = D.snapshot(root)
                import os
                cwd = os.getcwd()
                # the same location spelled in seven ways
                spellings = [("Path", lambda: root),
                             ("str", lambda: str(root)),
                             ("trailing slash", lambda: str(root) + "/"),
                             ("relative", lambda: root.name),
                             ("dot-dot", lambda: str(root / "train" / "..")),
                             ("home-relative", lambda: "~/" + root.name),
                             ("home-relative Path",
                              lambda: Path("~") / root.name)]
                home = os.environ.get("HOME")
                for sname, spell in spellings:
                    try:
                        if sname == "relative":
                            os.chdir(root.parent)
                        if sname.startswith("home"):
                            os.environ["HOME"] = str(root.parent)
                        D.create(spell(), fmt=fmt, eps=eps, hashes=hashes)
                        out["violations"].append(
                            ("C08", "create-accepted",
                             f"Dataset.create on an existing dataset (path "
                             f"given as {sname}) succeeded"))
                    except DatasetExistsError:
                        pass
                    except FileExistsError:
                        pass
                    finally:
                        os.chdir(cwd)
                        if home is None:
                            os.environ.pop("HOME", None)
                        else:
                            os.environ["HOME"] = home
                    if D.snapshot(root) != before:
                        out["violations"].append(
                            ("C08", "create-changed",
                             f"refused Dataset.create (path given as "
                             f"{sname}) changed the directory"))
                        break
                sessions.append([])
            else:
                try:
                    do_session(dataset, s, kind, pattern, eps, ref, sessions)
                except Exception as e:  # pylint: disable=broad-except
                    tb = traceback.extract_tb(e.__traceback__)
                    where = tb[-1].name if tb else "?"
                    sym = "retval" if "VF-RETVAL" in str(e) else "session-fails"
                    prop = "C09" if sym == "retval" else "C08"
                    out["violations"].append(
                        (prop, sym,
                         f"session {s} {kind}/{pattern} "
                         f"({'reopened' if reopen else 'kept'} handle) raised "
                         f"{type(e).__name__} in {where}: {str(e)[:160]}"))
                    out["failed"] = True
                    out["exc"] = type(e).__name__
                    out["where"] = where
                    return out
            if last or inspect_all:
                bad, key = inspect(root, dataset, ref, eps, fmt, hashes)
                bad += check_fullness(root, D.load_json(root /
                                                        "dataset_info.json"),
                                      eps, dataset.dataset_structure)
                if not last:
                    bad = [(p_, s_, f"(read back after session {s}) {m_}")
                           for p_, s_, m_ in bad]
                out["violations"].extend(bad)
                out["key"] = key
        return out
    finally:
        shutil.rmtree(root, ignore_errors=True)


def run_chunk(args) -> list[dict]:
    fmt, eps, histories = args
    res = []
    for h in histories:
        try:
            res.append(run_history(fmt, eps, h))
        except Exception as e:  # pylint: disable=broad-except
            res.append({
                "history": h,
                "violations": [],
                "key": None,
                "failed": True,
                "harness": f"{type(e).__name__}: {e} "
                           f"{traceback.format_exc()[-400:]}"
            })
    return res


def bfs(ex, fmt: str, eps: int, letters: list[tuple], depth: int,
        extra_first: list[tuple] = ()):
    """Breadth-first search with state caching.  Returns
    (stats, violations[(prop, symptom, msg, history)], harness_errors)."""
    t0 = time.time()
    seen: dict = {}
    frontier: list[list] = [[]]
    stats = {"histories": 0, "sessions": 0, "states": 1, "transitions": 0,
             "per_depth": [], "failed_sessions": 0}
    viol: list = []
    harness: list[str] = []
    nworkers = getattr(ex, "_max_workers", 8)
    for d in range(1, depth + 1):
        cands = [h + [l] for h in frontier for l in letters]
        if not cands:
            break
        chunk = max(1, min(40, len(cands) // (nworkers * 4) + 1))
        tasks = [(fmt, eps, cands[i:i + chunk])
                 for i in range(0, len(cands), chunk)]
        nxt = []
        new_states = 0
        for res in ex.map(run_chunk, tasks):
            for r in res:
                stats["histories"] += 1
                stats["sessions"] += len(r["history"])
                stats["transitions"] += 1
                if r.get("harness"):
                    harness.append(f"{r['history']}: {r['harness']}")
                    continue
                for v in r["violations"]:
                    viol.append((*v, r["history"]))
                if r["failed"]:
                    stats["failed_sessions"] += 1
                    continue
                if r["key"] is not None and r["key"] not in seen:
                    seen[r["key"]] = r["history"]
                    new_states += 1
                    nxt.append(r["history"])
        stats["per_depth"].append({"depth": d, "histories": len(cands),
                                   "new_states": new_states})
        stats["states"] += new_states
        frontier = nxt
    stats["wall_s"] = round(time.time() - t0, 2)
    return stats, viol, harness


# ---------------------------------------------------------------------------
# glue for the checks
# ---------------------------------------------------------------------------
def run_bfs_check(ctx, tags: set[str], plans: list[dict]) -> None:
    """plans: [{fmt, eps, letters, depth}], explored one after the other on a
    shared worker pool.  Violations tagged with a property in ``tags`` are
    reported; others are only counted."""
    other = collections.Counter()
    with core.pool() as ex:
        for plan in plans:
            stats, viol, harness = bfs(ex, plan["fmt"], plan["eps"],
                                       plan["letters"], plan["depth"])
            for h in harness[:5]:
                ctx.harness_error(h)
            name = (f"{plan['fmt']} eps={plan['eps']} depth={plan['depth']} "
                    f"alphabet={len(plan['letters'])}")
            ctx.part(name, **stats)
            ctx.add(states=stats["states"],
                    transitions=stats["transitions"],
                    traces_validated_against_impl=stats["histories"],
                    sessions_executed=stats["sessions"])
            for prop, sym, msg, hist in viol:
                if prop in tags:
                    kinds = sorted({k for k, _, _ in hist})
                    ctx.violation(
                        {"engine": "opseq", "symptom": sym,
                         "last": hist[-1][0], "fmt": plan["fmt"]},
                        f"after history {hist}: {msg}",
                        {"kind": "history", "fmt": plan["fmt"],
                         "eps": plan["eps"], "history": hist})
                else:
                    other[prop] += 1
            ctx.sample({"fmt": plan["fmt"], "history_example":
                        [list(l) for l in plan["letters"][:3]],
                        "depth": plan["depth"]})
    ctx.cov["violations_of_other_properties_seen"] = dict(other)
    ctx.cov["exhaustive"] = True


def long_histories() -> list[tuple[str, int, list]]:
    """Single long histories beyond the depth of the search: counts that
    cross a decimal digit, deep nesting, equal leaf names."""
    T1 = "train1"
    out = []
    out.append(("fb", 2, [("root", T1, i % 2) for i in range(12)]))
    out.append(("fb", 1, [(f"d{i}", "mix" if i % 5 == 0 else T1, i % 2)
                          for i in range(12)]))
    out.append(("npz", 2, [("x", T1, (i // 2) % 2) for i in range(11)]))
    out.append(("fb", 2, [("a", T1, 0), ("a/b", T1, 0), ("a/b/c", T1, 1),
                          ("a/b/c/d", "mix", 0), ("a/b", T1, 1),
                          ("a", "mix", 0), ("root", T1, 0),
                          ("a/b/c/d", T1, 1)]))
    out.append(("fb", 2, [("b", T1, 0), ("a/b", T1, 0), ("a/x/b", T1, 1),
                          ("b", T1, 0), ("x/b", "mix", 0), ("a", T1, 1),
                          ("train", T1, 0), ("a/train", T1, 0)]))
    out.append(("tfrec", 2, [("multi3", "mix", 0), ("x", T1, 0),
                             ("multi", T1, 1), ("x", T1, 0),
                             ("multi3", T1, 0), ("root", "mix", 1),
                             ("multi", "mix", 0)]))
    out.append(("fb/nohash+reads", 2, [("root", T1, i % 2)
                                       for i in range(11)]))
    return out


def run_explicit(ctx, tags: set[str], cases: list[tuple[str, int, list]],
                 inspect_all: bool = False) -> None:
    """Run given histories (inspected after the last session; after every
    session for "+reads" formats)."""
    with core.pool() as ex:
        tasks = [(fmt + ("" if "+reads" in fmt or not inspect_all else
                         "+reads"), eps, [h]) for fmt, eps, h in cases]
        n = ns = 0
        for res in ex.map(run_chunk, tasks):
            for r in res:
                n += 1
                ns += len(r["history"])
                if r.get("harness"):
                    ctx.harness_error(f"{r['history']}: {r['harness']}")
                    continue
                for prop, sym, msg in r["violations"]:
                    if prop in tags:
                        ctx.violation(
                            {"engine": "opseq", "symptom": sym,
                             "last": "long-history"},
                            f"after history {r['history']}: {msg}",
                            {"kind": "history", "fmt": tasks[n - 1][0],
                             "eps": tasks[n - 1][1],
                             "history": r["history"]})
    ctx.part("long histories (7-12 sessions)",
             histories=n, sessions=ns)
    ctx.add(states=ns, transitions=ns, traces_validated_against_impl=n,
            sessions_executed=ns)


def replay_history(case: dict, tags: set[str]) -> list[str]:
    core.import_sedpack_quietly()
    hist = [tuple(l) for l in case["history"]]
    r = run_history(case["fmt"], case["eps"], hist)
    return [m for p, s, m in r["violations"] if p in tags]
