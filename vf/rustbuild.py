"""Builds the Rust parts from /repo's working tree (offline) into /verif/.cache.

* the Python extension (`sedpack._sedpack_rs`) -> loaded instead of the stale
  pre-built .so that lives untracked in /repo/src/sedpack;
* the parallel_map model-checking harness crate /verif/rs/pmap_mc.
"""
from __future__ import annotations

import importlib.machinery
import importlib.util
import os
import shutil
import subprocess
import sys
import time
from pathlib import Path

from vf.core import VERIF, REPO, HarnessError

CACHE = VERIF / ".cache"
EXT_TARGET = CACHE / "rs_ext_target"
EXT_SO = CACHE / "ext" / "_sedpack_rs.cpython-312-x86_64-linux-gnu.so"
PMAP_TARGET = CACHE / "rs_pmap_target"
PMAP_BIN = PMAP_TARGET / "release" / "pmap_mc"


def _cargo(args: list[str], cwd: Path, target: Path, verbose=False) -> None:
    env = dict(os.environ)
    env["CARGO_TARGET_DIR"] = str(target)
    env["CARGO_NET_OFFLINE"] = "true"
    t0 = time.time()
    r = subprocess.run(["cargo"] + args + ["--offline"], cwd=cwd, env=env,
                       capture_output=True, text=True)
    if r.returncode != 0:
        raise HarnessError(f"cargo {' '.join(args)} failed in {cwd}:\n" +
                           r.stderr[-3000:])
    if verbose:
        print(f"cargo {' '.join(args)} in {cwd}: {time.time() - t0:.1f}s")


def ensure_ext(verbose=False) -> Path:
    """Build the extension from /repo/rust and return the path of the .so."""
    CACHE.mkdir(exist_ok=True)
    _cargo(["build", "--release", "--lib"], REPO / "rust", EXT_TARGET, verbose)
    built = EXT_TARGET / "release" / "libsedpack_rs.so"
    if not built.is_file():
        raise HarnessError(f"{built} missing after cargo build")
    EXT_SO.parent.mkdir(exist_ok=True)
    if (not EXT_SO.is_file() or
            EXT_SO.stat().st_mtime < built.stat().st_mtime or
            EXT_SO.stat().st_size != built.stat().st_size):
        tmp = EXT_SO.with_suffix(f".tmp{os.getpid()}")
        shutil.copy2(built, tmp)
        os.replace(tmp, EXT_SO)
    os.environ["VF_RUST_EXT"] = str(EXT_SO)
    return EXT_SO


def ensure_pmap(verbose=False) -> Path:
    _cargo(["build", "--release"], VERIF / "rs" / "pmap_mc", PMAP_TARGET,
           verbose)
    if not PMAP_BIN.is_file():
        raise HarnessError(f"{PMAP_BIN} missing after cargo build")
    return PMAP_BIN


def ensure_all(verbose=False) -> None:
    ensure_ext(verbose)
    if (VERIF / "rs" / "pmap_mc" / "Cargo.toml").is_file():
        ensure_pmap(verbose)


def load_ext() -> None:
    """Install the freshly built extension as sedpack._sedpack_rs (must run
    before sedpack.io is imported)."""
    path = os.environ.get("VF_RUST_EXT")
    if not path:
        return
    if "sedpack._sedpack_rs" in sys.modules:
        return
    import sedpack
    loader = importlib.machinery.ExtensionFileLoader("sedpack._sedpack_rs",
                                                     path)
    spec = importlib.util.spec_from_loader("sedpack._sedpack_rs", loader,
                                           origin=path)
    mod = importlib.util.module_from_spec(spec)
    loader.exec_module(mod)
    sys.modules["sedpack._sedpack_rs"] = mod
    sedpack._sedpack_rs = mod
