"""A small family of datasets (flat / nested / multi-writer layouts, 1..3
splits, 1..5 shards, short last shards) with known content."""
from __future__ import annotations

from pathlib import Path

from vf import ds as D
from vf.opseq import feed

# name: (fmt, eps, sessions) ; session = (kind, [(split, n)...])
RECIPES = {
    "one": ("fb", 2, [("root", [("train", 1)])]),
    "flat": ("fb", 2, [("root", [("train", 3), ("test", 2)])]),
    "flat5": ("fb", 1, [("root", [("train", 5), ("holdout", 1)])]),
    "nested": ("fb", 3, [("root", [("train", 4), ("test", 1)]),
                         ("x", [("train", 2)]), ("x/y", [("train", 1)])]),
    "multi": ("fb", 2, [("multi", [("train", 3), ("train", 2),
                                   ("holdout", 1)])]),
    # three levels; the lists of x and of the split have no shards of their
    # own at first (children only), the root session comes last
    "deep3": ("fb", 2, [("x/y", [("train", 1)]), ("x/y/z", [("train", 3)]),
                        ("w", [("test", 1)]), ("root", [("train", 1)])]),
    "multi4": ("fb", 2, [("x", [("train", 1)]),
                         ("multi", [("train", 2), ("train", 1), ("train", 3),
                                    ("train", 1)]),
                         ("y", [("train", 2)])]),
    # a bushy tree: several lists per depth, children below lists that are
    # neither first nor last at their depth, shards next to children
    "bushy": ("fb", 2, [("a/b", [("train", 2)]), ("c/d", [("train", 3)]),
                        ("c", [("train", 1)]), ("e", [("train", 1),
                                                      ("test", 1)]),
                        ("a/b/f", [("train", 1)]), ("g/h", [("train", 1)])]),
    "cont": ("fb", 2, [("root", [("train", 3)]), ("root", [("train", 2),
                                                          ("test", 3)])]),
    "npz": ("npz", 2, [("root", [("train", 5), ("test", 1)])]),
    "npznest": ("npz", 3, [("root", [("train", 2)]), ("x", [("train", 4)])]),
    "tfrec": ("tfrec", 2, [("root", [("train", 3), ("test", 1)])]),
}

# larger recipes used by single checks only (not part of the family loops)
EXTRA = {
    # more writers than one decimal digit counts (positions 10, 11 next to
    # 2..9), then a second multi-writer call
    "multi12": ("fb", 2, [("multi", [("train", 1), ("test", 1)] * 3 +
                           [("train", 2)] * 6),
                          ("multi", [("train", 1)] * 11)]),
    # further sessions into sub-directories the parent lists already know
    "subtwice": ("fb", 2, [("x", [("train", 3)]),
                           ("x", [("train", 2), ("test", 1)]),
                           ("x/y", [("train", 1)]), ("x", [("train", 1)]),
                           ("root", [("train", 1)]), ("x/y", [("test", 2)])]),
    "many64": ("fb", 1, [("root", [("train", 64)])]),
    "many120": ("fb", 1, [("root", [("train", 120)])]),
    "many120npz": ("npz", 1, [("root", [("train", 120)])]),
}


def build(root: Path, name: str, compression=None, hashes=("sha256",),
          uuids=None):
    """Create the dataset; returns (dataset, ref: split -> ids in order).
    uuids: None | 'ascending' | 'descending' (order of the generated names)."""
    with D.uuid_order(uuids):
        return _build(root, name, compression, hashes)


def _build(root: Path, name: str, compression, hashes):
    from sedpack.io.dataset_filler import DatasetFiller
    fmt, eps, sessions = RECIPES.get(name) or EXTRA[name]
    dataset = D.create(root, fmt=fmt, eps=eps, compression=compression,
                       hashes=hashes)
    ref: dict = {}
    for s, (kind, parts) in enumerate(sessions):
        if kind == "multi":
            writers = []
            for w, (split, n) in enumerate(parts):
                writers.append([(split, (s, w, q)) for q in range(n)])
            dataset.write_multiprocessing(
                feed_writer=feed,
                custom_arguments=[(w,) for w in writers],
                single_process=True)
            for w in writers:
                for split, idt in w:
                    ref.setdefault(split, []).append(idt)
            continue
        filler = dataset.filler() if kind == "root" else DatasetFiller(
            dataset, relative_path_from_split=Path(kind))
        items = []
        q = 0
        # interleave the splits round robin (write order inside a session)
        remaining = {split: n for split, n in parts}
        while any(remaining.values()):
            for split in list(remaining):
                if remaining[split]:
                    remaining[split] -= 1
                    items.append((split, (s, 0, q)))
                    q += 1
        with filler as f:
            for split, idt in items:
                f.write_example(values=D.example(idt), split=split)
                ref.setdefault(split, []).append(idt)
    return dataset, ref


def n_shards(dataset, split) -> int:
    return len(list(dataset.shard_info_iterator(split)))


def interfaces(fmt: str, with_rust: bool = False) -> list[str]:
    out = ["sync", "concurrent"]
    if fmt in ("fb", "npz"):
        out.append("async")
    if fmt == "fb" and with_rust:
        out.append("rust")
    out.append("tf")
    return out
