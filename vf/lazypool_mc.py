"""Exhaustive interleaving exploration of the real lazy_pool.py (E2 driver).

One *configuration* = (variant, T, n, k, p, ...).  ``explore_config`` explores
every interleaving (complete with state caching, or up to a preemption bound)
of the driver below running the module compiled from /repo's working tree.
"""
from __future__ import annotations

import collections
import time

from vf import sched
from vf.core import SRC
from vf.explorer import Explorer, Divergence, FixedChooser

LAZY_POOL = str(SRC / "sedpack" / "io" / "itertools" / "lazy_pool.py")
MODNAME = "vf_controlled_lazy_pool"
THIS = __file__


class MappedFailure(Exception):
    """Raised by the mapped function of the failing-input variant."""


class SourceFailure(Exception):
    """Raised by the input iterable itself (variant srcfail)."""


def f_ok(x):
    return 100 + x


class Driver:
    """The consumer side; its observable state is what the oracle checks."""

    def __init__(self, mod, cfg: dict) -> None:
        self.mod = mod
        self.cfg = cfg
        self.drawn = 0
        self.got: list[int] = []
        self.got2: list[int] = []
        self.phase = 0
        self.x_max_ahead = 0
        self.error: str | None = None

    def observe(self):
        return (tuple(sorted(self.got)), tuple(sorted(self.got2)), self.drawn,
                self.phase, self.error)

    def source(self, n):
        i = 0
        sp = self.cfg.get("sp")
        while n is None or i < n:
            if sp is not None and i == sp and self.phase < 3:
                raise SourceFailure(i)
            self.drawn += 1
            yield i
            i += 1

    def f(self, x):
        p = self.cfg.get("p")
        if p is not None and x == p:
            raise MappedFailure(x)
        return 100 + x

    def drive_main(self):
        cfg = self.cfg
        v = cfg["variant"]
        pool = self.mod.LazyPool(cfg["T"])
        n = cfg["n"]
        k = cfg.get("k")
        try:
            with pool:
                self.phase = 1
                for self.x_y in pool.imap_unordered(self.f, self.source(n)):
                    self.got.append(self.x_y)
                    ahead = self.drawn - len(self.got)
                    if ahead > self.x_max_ahead:
                        self.x_max_ahead = ahead
                    if k is not None and len(self.got) >= k:
                        break
                self.phase = 2
            self.phase = 3
        except Exception as e:  # pylint: disable=broad-except
            c = e
            while c is not None and not isinstance(c, (MappedFailure,
                                                       SourceFailure)):
                c = c.__cause__ or c.__context__
            if c is None:
                raise
            self.error = f"{type(c).__name__}({c.args[0]})"
            self.phase = 3
        if v == "reuse":
            # second complete pass on the same pool object
            drawn0 = self.drawn
            with pool:
                self.phase = 4
                for self.x_y in pool.imap_unordered(f_ok,
                                                    self.source(cfg["n2"])):
                    self.got2.append(self.x_y)
                self.phase = 5
            self.phase = 6
            self.drawn2 = self.drawn - drawn0
        return "ok"


_MOD = None


def controlled_module():
    global _MOD
    if _MOD is None:
        _MOD = sched.load_controlled(LAZY_POOL, MODNAME)
    return _MOD


def run_once(cfg: dict, chooser, line_points=False, use_cache=True):
    """One execution.  Returns (outcome dict, scheduler)."""
    mod = controlled_module()
    drv = Driver(mod, cfg)
    s = sched.Scheduler(chooser,
                        watched_files=(LAZY_POOL, THIS),
                        watched_mods=(MODNAME, __name__),
                        observe=drv.observe,
                        line_points=line_points,
                        use_cache=use_cache,
                        only_funcs={THIS: {"drive_main", "source", "f"}},
                        workers_first=bool(cfg.get("workers_first")),
                        every_switch_costs=bool(cfg.get("workers_first")),
                        timeouts_first=cfg.get("slow", 0))
    res, exc = s.run_main(drv.drive_main)
    out = {
        "got": sorted(drv.got),
        "got2": sorted(drv.got2),
        "drawn": drv.drawn,
        "phase": drv.phase,
        "error": drv.error,
        "exc": None if exc is None else f"{type(exc).__name__}: {exc}",
        "deadlock": s.deadlock,
        "blocked": s.blocked_at_end,
        "dead_threads": sum(1 for t in s.threads if t.exc is not None),
        "max_ahead": drv.x_max_ahead,
        "threads": len(s.threads),
        "pruned": s.pruned,
        "horizon": s.horizon,
        "divergence": s.divergence,
    }
    return out, s


def judge(cfg: dict, out: dict) -> list[str]:
    """Oracle for one complete execution (C13 statement + C14 cap)."""
    bad = []
    T, n, v = cfg["T"], cfg["n"], cfg["variant"]
    k, p = cfg.get("k"), cfg.get("p")
    if out.get("horizon"):
        return [f"the execution did not come to rest within the horizon of "
                f"scheduling points (drawn {out['drawn']} inputs for "
                f"{len(out['got'])} results): unbounded feeding or livelock"]
    if out["deadlock"]:
        if out["phase"] in (3, 6) and out["exc"] is None:
            bad.append(f"workers never terminate after the consumer left the "
                       f"pool: blocked={out['blocked']}")
        else:
            bad.append(f"deadlock: consumer in phase {out['phase']}, "
                       f"blocked={out['blocked']}, "
                       f"dead worker threads={out['dead_threads']}")
        return bad
    if out["exc"] is not None:
        bad.append(f"consumer got unexpected {out['exc']}")
        return bad
    sp = cfg.get("sp")
    if p is None and sp is None and out["error"]:
        bad.append(f"spurious failure {out['error']}")
    if sp is not None:
        # the input iterable raises at position sp: the consumer must see
        # that error (not a normal end), results come from inputs < sp
        ok = collections.Counter(100 + i for i in range(sp))
        c = collections.Counter(out["got"])
        c.subtract(ok)
        if any(vv > 0 for vv in c.values()):
            bad.append(f"results {out['got']} not among the inputs before "
                       f"the failing position {sp}")
        if out["error"] is None:
            bad.append(f"the input iterable raised at position {sp} but the "
                       f"consumer saw a normal end with {out['got']}")
        return bad
    expect_all = sorted(100 + i for i in range(n)) if n is not None else None
    if p is not None and (k is None) and p < (n if n is not None else p + 1):
        # failing input: either the error reached the consumer, or (if an
        # implementation chose to skip) -- the statement only demands "no
        # deadlock"; C07 demands the error.  Here: results must be a
        # sub-multiset of the successful ones.
        ok = [x for x in expect_all if x != 100 + p]
        c = collections.Counter(out["got"])
        c.subtract(collections.Counter(ok))
        if any(vv > 0 for vv in c.values()):
            bad.append(f"results {out['got']} not among {ok}")
        if out["error"] is None:
            bad.append(f"mapped function failed on input {p} but the consumer "
                       f"saw a normal end with {out['got']}")
    elif k is None:
        if out["got"] != expect_all:
            bad.append(f"one pass over {n} inputs with {T} threads yielded "
                       f"{out['got']} expected {expect_all}")
    else:
        kk = min(k, n) if n is not None else k
        if len(out["got"]) != kk:
            bad.append(f"early exit after {k}: got {len(out['got'])} results")
        pool_ = collections.Counter(out["got"])
        if any(c > 1 for c in pool_.values()) or any(
                x < 100 or (n is not None and x >= 100 + n)
                for x in out["got"]):
            bad.append(f"early exit: wrong results {out['got']}")
    if v == "reuse":
        e2 = sorted(100 + i for i in range(cfg["n2"]))
        if out["got2"] != e2:
            bad.append(f"second pass on the reused pool yielded {out['got2']} "
                       f"expected {e2}")
    cap = 4 * T + 8
    if out["max_ahead"] > cap:
        bad.append(f"read-ahead {out['max_ahead']} exceeds cap {cap}")
    return bad


def explore_config(cfg: dict) -> dict:
    """Explore all interleavings of one configuration.

    cfg keys: variant(full|early|reuse|fail|srcfail|inf), T, n, k, p, sp, n2,
              bound (None = complete), cache(bool), lines(bool), max_exec,
              workers_first (base schedule: eager workers), slow=K (base
              schedule: every wait with a time-out expires up to K times in
              a row before its partner runs).
    """
    t0 = time.time()
    bound = cfg.get("bound")
    use_cache = cfg.get("cache", True)
    lines = cfg.get("lines", False)
    outcomes: dict[str, int] = {}
    violations: list[dict] = []
    samples: list = []
    max_ahead = [0]
    max_threads = [0]
    harness: list[str] = []

    def run(chooser):
        out, s = run_once(cfg, chooser, line_points=lines, use_cache=use_cache)
        if s.divergence:
            harness.append(f"DIVERGENCE {cfg}: {s.divergence}")
        out["_trace"] = s.trace[:60]
        return out

    def on_result(choices, out):
        key = repr((out["got"], out["got2"], out["error"], out["exc"],
                    out["deadlock"], out["phase"]))
        outcomes[key] = outcomes.get(key, 0) + 1
        max_ahead[0] = max(max_ahead[0], out["max_ahead"])
        max_threads[0] = max(max_threads[0], out["threads"])
        if len(samples) < 2:
            samples.append({"choices": choices[:40], "schedule": out["_trace"]})
        elif any(choices) and not any(samples[1]["choices"]):
            # prefer a sample that deviates from the default schedule
            samples[1] = {"choices": choices[:40], "schedule": out["_trace"]}
        bad = judge(cfg, out)
        if bad and len(violations) < 5:
            # replay twice without cache: must reproduce
            again = [replay_case(cfg, choices) for _ in range(2)]
            if all(a == bad for a in again):
                violations.append({"choices": choices, "what": bad})
            else:
                harness.append(f"NONDETERMINISM {cfg} {choices}: {bad} vs "
                               f"{again}")

    ex = Explorer(run,
                  bound=bound,
                  cache=use_cache,
                  max_executions=cfg.get("max_exec"),
                  max_seconds=cfg.get("max_seconds", 240))
    try:
        ex.explore(on_result)
    except Divergence as d:
        harness.append(f"DIVERGENCE {cfg}: {d}")
    st = ex.stats()
    if use_cache and st["executions"] > 0 and st["complete_executions"] == 0 \
            and not cfg.get("_nocache_retry"):
        # every execution was cut off as "state already seen", the first one
        # included: the state key sees a cycle where there is none (e.g. a
        # loop over threads whose iterator is invisible to the key).  Search
        # this configuration again without the cache (stateless), with a
        # preemption bound so that it stays finite.
        again = dict(cfg, cache=False, _nocache_retry=True)
        if again.get("bound") is None:
            again["bound"] = 2
        again.setdefault("max_exec", 60000)
        res = explore_config(again)
        res["cfg"] = {k: v for k, v in cfg.items()}
        res["fallback_uncached"] = True
        return res
    st.update({
        "cfg": {k: v for k, v in cfg.items()},
        "outcomes": outcomes,
        "violations": violations,
        "samples": samples,
        "max_ahead": max_ahead[0],
        "max_threads": max_threads[0],
        "harness": harness,
        "wall_s": round(time.time() - t0, 2),
        "complete": bound is None and not ex.capped,
    })
    return st


def replay_case(cfg: dict, choices: list[int]) -> list[str]:
    """Re-execute exactly one schedule (no cache, no exploration)."""

    out, s = run_once(cfg, FixedChooser(choices), line_points=cfg.get("lines", False),
                      use_cache=False)
    if s.divergence:
        return [f"DIVERGENCE {s.divergence}"]
    return judge(cfg, out)
