"""Dataset helpers shared by the dataset-level engines.

Every example's payload encodes its identity (session, writer, seq), so that
decoding a shard tells exactly which examples it holds; a second attribute is
derived from the identity, so a torn or mis-decoded example cannot pass.
"""
from __future__ import annotations

import asyncio
import hashlib
import json
import re
from pathlib import Path

import numpy as np

SPLITS = ("train", "test", "holdout")
UUID_RE = re.compile(r"^[0-9a-f]{32}$")


def sed():
    import sedpack.io as sio  # imported lazily: pulls in TensorFlow
    return sio


def structure(fmt="fb", eps=2, compression=None, hashes=("sha256",)):
    from sedpack.io.metadata import Attribute, DatasetStructure
    if compression is None:
        compression = {"fb": "LZ4", "npz": "ZIP", "tfrec": "GZIP"}[fmt]
    return DatasetStructure(
        saved_data_description=[
            Attribute(name="id", dtype="int64", shape=(3,)),
            Attribute(name="v", dtype="float32", shape=(2,)),
        ],
        compression=compression,
        examples_per_shard=eps,
        shard_file_type=fmt,
        hash_checksum_algorithms=tuple(hashes),
    )


def create(path, fmt="fb", eps=2, compression=None, hashes=("sha256",),
           metadata=None):
    from sedpack.io import Dataset, Metadata
    return Dataset.create(
        path=path,
        metadata=metadata or Metadata(description="verif"),
        dataset_structure=structure(fmt, eps, compression, hashes),
    )


def example(idt) -> dict:
    s, w, q = idt
    return {
        "id": np.array([s, w, q], dtype=np.int64),
        "v": np.array([q * 0.5 + 0.25, s - w * 0.125], dtype=np.float32),
    }


def to_id(ex) -> tuple:
    """Identity of a decoded example; raises if the payload is inconsistent."""
    i = np.asarray(ex["id"]).astype(np.int64).reshape(-1)
    v = np.asarray(ex["v"]).astype(np.float32).reshape(-1)
    if i.shape != (3,) or v.shape != (2,):
        raise ValueError(f"decoded example has wrong shapes {i.shape} "
                         f"{v.shape}")
    s, w, q = (int(x) for x in i)
    exp = np.array([q * 0.5 + 0.25, s - w * 0.125], dtype=np.float32)
    if v.tobytes() != exp.tobytes():
        raise ValueError(f"decoded example {(s, w, q)} carries a foreign/torn "
                         f"payload {v.tolist()}")
    return (s, w, q)


def shard_iterator(struct):
    from sedpack.io.flatbuffer import IterateShardFlatBuffer
    from sedpack.io.npz import IterateShardNP
    from sedpack.io.tfrec import IterateShardTFRec
    cls = {
        "fb": IterateShardFlatBuffer,
        "npz": IterateShardNP,
        "tfrec": IterateShardTFRec
    }[struct.shard_file_type]
    if struct.shard_file_type == "tfrec":
        return cls(dataset_structure=struct, process_record=None,
                   num_parallel_calls=1)
    return cls(dataset_structure=struct, process_record=None)


def decode_shard(struct, path) -> list[tuple]:
    """Ids stored in one shard file (format's single-shard reader)."""
    return [to_id(e) for e in shard_iterator(struct).iterate_shard(Path(path))]


def iterate(ds, split, iface="sync", **kw) -> list:
    """One finite pass through an iteration interface; returns examples."""
    kw.setdefault("repeat", False)
    kw.setdefault("shuffle", 0)
    if iface == "sync":
        return list(ds.as_numpy_iterator(split=split, **kw))
    if iface == "concurrent":
        kw.setdefault("file_parallelism", 2)
        return list(ds.as_numpy_iterator_concurrent(split=split, **kw))
    if iface == "rust":
        kw.setdefault("file_parallelism", 2)
        try:
            return list(ds.as_numpy_iterator_rust(split=split, **kw))
        except BaseException as e:  # pylint: disable=broad-except
            # a Rust panic arrives as pyo3's PanicException, a BaseException
            # that cannot be pickled back from a worker process
            if type(e).__name__ == "PanicException":
                raise RustPanic(str(e)[:300]) from None
            raise
    if iface == "async":
        kw.setdefault("file_parallelism", 2)

        async def go():
            return [
                e async for e in ds.as_numpy_iterator_async(split=split, **kw)
            ]

        return asyncio.run(go())
    if iface == "tf":
        kw.setdefault("batch_size", 0)
        kw.setdefault("file_parallelism", 2)
        kw.setdefault("parallelism", 1)
        tfds = ds.as_tfdataset(split=split, **kw)
        if kw["batch_size"] > 0:
            tfds = tfds.unbatch()
        return list(tfds.as_numpy_iterator())
    raise ValueError(iface)


def ids(ds, split, iface="sync", **kw) -> list[tuple]:
    return [to_id(e) for e in iterate(ds, split, iface, **kw)]


class RustPanic(RuntimeError):
    """pyo3_runtime.PanicException converted to an ordinary exception."""


def sha256(path) -> str:
    return hashlib.sha256(Path(path).read_bytes()).hexdigest()


# ---------------------------------------------------------------------------
# independent walk of the metadata tree (plain json, no sedpack classes)
# ---------------------------------------------------------------------------
def load_json(path):
    return json.loads(Path(path).read_text())


def walk_lists(root: Path, split_info: dict):
    """Yield (list_rel_path, list_json, recorded_info) depth first."""
    rel = Path(split_info["shard_list_info_file"]["file_path"])
    doc = load_json(root / rel)
    yield rel, doc, split_info
    for child in doc.get("children_shard_lists", []):
        yield from walk_lists(root, child)


def all_files(root: Path) -> list[Path]:
    return sorted(p.relative_to(root) for p in root.rglob("*") if p.is_file())


def snapshot(root: Path) -> dict[str, bytes]:
    return {str(p): (root / p).read_bytes() for p in all_files(root)}


def canon_name(name: str, table: dict) -> str:
    stem = name.split(".")[0]
    if UUID_RE.match(stem):
        if stem not in table:
            table[stem] = f"U{len(table)}"
        return name.replace(stem, table[stem])
    return name


# ---------------------------------------------------------------------------
# finite prefixes of (possibly repeating) streams, with a watchdog
# ---------------------------------------------------------------------------
class Watchdog(Exception):
    pass


def with_alarm(seconds: int, fn):
    """Run fn() in the main thread of the process under SIGALRM."""
    import signal

    def onalarm(signum, frame):
        raise Watchdog(f"no result within {seconds}s")

    old = signal.signal(signal.SIGALRM, onalarm)
    signal.alarm(seconds)
    try:
        return fn()
    finally:
        signal.alarm(0)
        signal.signal(signal.SIGALRM, old)


def take(ds, split, iface, k, **kw) -> list:
    """First k examples of the stream (repeat defaults to the library's
    default, i.e. True)."""
    kw.setdefault("shuffle", 0)
    out = []
    if iface in ("sync", "concurrent", "rust"):
        if iface != "sync":
            kw.setdefault("file_parallelism", 2)
        fn = {"sync": ds.as_numpy_iterator,
              "concurrent": ds.as_numpy_iterator_concurrent,
              "rust": ds.as_numpy_iterator_rust}[iface]
        gen = fn(split=split, **kw)
        try:
            for e in gen:
                out.append(e)
                if len(out) >= k:
                    break
        except BaseException as e:  # pylint: disable=broad-except
            if type(e).__name__ == "PanicException":
                raise RustPanic(str(e)[:300]) from None
            raise
        finally:
            gen.close()
        return out
    if iface == "async":
        kw.setdefault("file_parallelism", 2)

        async def go():
            agen = ds.as_numpy_iterator_async(split=split, **kw)
            try:
                async for e in agen:
                    out.append(e)
                    if len(out) >= k:
                        break
            finally:
                await agen.aclose()

        asyncio.run(go())
        return out
    if iface == "tf":
        kw.setdefault("batch_size", 0)
        kw.setdefault("file_parallelism", 2)
        kw.setdefault("parallelism", 1)
        tfds = ds.as_tfdataset(split=split, **kw)
        if kw["batch_size"] > 0:
            tfds = tfds.unbatch()
        return list(tfds.take(k).as_numpy_iterator())
    raise ValueError(iface)


# ---------------------------------------------------------------------------
# inotify (IN_OPEN) through ctypes: counts shard opens by native readers
# ---------------------------------------------------------------------------
class OpenCounter:
    IN_OPEN = 0x20

    def __init__(self, root: Path) -> None:
        import ctypes
        import os
        self.libc = ctypes.CDLL("libc.so.6", use_errno=True)
        self.fd = self.libc.inotify_init1(os.O_NONBLOCK)
        self.names = {}
        for d in [root] + [p for p in root.rglob("*") if p.is_dir()]:
            wd = self.libc.inotify_add_watch(self.fd, str(d).encode(),
                                             self.IN_OPEN)
            self.names[wd] = d

    def read(self) -> int:
        """Number of IN_OPEN events on shard files since the last call."""
        import os
        import struct
        n = 0
        while True:
            try:
                buf = os.read(self.fd, 65536)
            except BlockingIOError:
                break
            i = 0
            while i < len(buf):
                wd, mask, cookie, ln = struct.unpack_from("iIII", buf, i)
                name = buf[i + 16:i + 16 + ln].split(b"\0")[0].decode()
                i += 16 + ln
                if name.endswith((".fb", ".npz", ".tfrec")):
                    n += 1
        return n

    def close(self) -> None:
        import os
        os.close(self.fd)


# ---------------------------------------------------------------------------
# uuid seam: directory / file names are the only other source of
# nondeterminism of the writer; their *order* is made an explicit parameter
# ---------------------------------------------------------------------------
class FakeUuid:
    """Stands in for the `uuid` module inside sedpack's writer modules:
    uuid4().hex values are unique and either increasing or decreasing in
    lexicographic order."""

    class _U:

        def __init__(self, hexv):
            self.hex = hexv

        def __str__(self):
            return self.hex

    def __init__(self, order: str) -> None:
        self.order = order
        self.n = 0

    def uuid4(self):
        self.n += 1
        v = self.n if self.order == "ascending" else (1 << 128) - 1 - self.n
        return FakeUuid._U(f"{v:032x}")


import contextlib  # noqa: E402


@contextlib.contextmanager
def uuid_order(order):
    """order: None (real uuids) | 'ascending' | 'descending'."""
    if order is None:
        yield
        return
    import sedpack.io.dataset_writing as dw
    import sedpack.io.dataset_filler as df
    import sedpack.io.utils as du
    fake = FakeUuid(order)
    saved = [(m, m.uuid) for m in (dw, df, du) if hasattr(m, "uuid")]
    for m, _ in saved:
        m.uuid = fake
    try:
        yield
    finally:
        for m, u in saved:
            m.uuid = u
