"""Choice-sequence DFS explorer with deviation bound and state caching.

An *execution* is a call ``run(chooser)``; the code under exploration calls
``chooser.choose(n, key=..., costs=...)`` whenever the environment has ``n``
possible answers.  Beyond the replayed prefix the default answer 0 is taken.
After the execution every alternative at every position beyond the prefix is
scheduled, provided its accumulated deviation cost stays within ``bound``.

State caching: if ``key`` is given and that key was already expanded with at
most the current number of deviations, the execution is pruned (``Pruned`` is
raised in the running code).  A key is expanded exactly once per (lower)
deviation count, so pruning is sound also under a bound.
"""
from __future__ import annotations

from typing import Callable


class Pruned(BaseException):
    """The current execution reached an already expanded state."""


class Divergence(Exception):
    """Replaying a prefix met a different choice point: harness error."""


class Chooser:

    def __init__(self, ex: "Explorer", prefix: list[int],
                 prefix_dev: int) -> None:
        self.ex = ex
        self.prefix = prefix
        self.choices: list[int] = []
        self.ns: list[int] = []
        self.costs: list[list[int] | None] = []
        self.dev_before: list[int] = []  # deviations before position i
        self.dev = 0
        self.pruned = False
        self.bounded = ex.bound is not None
        # state keys first stored by THIS execution: meeting one of them
        # again is a cycle of the key, not of the program (loop iterators are
        # invisible to the key) - never a reason to cut the execution off
        self.own: set = set()

    def beyond_prefix(self) -> bool:
        return len(self.choices) >= len(self.prefix)

    def choose(self, n: int, key=None, costs: list[int] | None = None) -> int:
        """Return an index in range(n)."""
        if n <= 0:
            raise Divergence("choose() with no alternative")
        pos = len(self.choices)
        ex = self.ex
        forced = n == 1 and not ex.record_forced
        if pos < len(self.prefix):
            if forced:
                return 0
            c = self.prefix[pos]
            if c >= n:
                raise Divergence(
                    f"prefix {self.prefix} asks for alternative {c} of {n} "
                    f"at position {pos}")
        else:
            if key is not None and ex.cache is not None:
                seen = ex.cache.get(key)
                if seen is not None and key not in self.own and (
                        ex.bound is None or seen <= self.dev):
                    self.pruned = True
                    ex.pruned += 1
                    raise Pruned()
                if seen is None or self.dev < seen:
                    ex.cache[key] = self.dev
                self.own.add(key)
            c = 0
        if forced:
            return 0
        self.dev_before.append(self.dev)
        self.choices.append(c)
        self.ns.append(n)
        self.costs.append(costs)
        if c:
            self.dev += costs[c] if costs else 1
        ex.transitions += 1
        return c


class FixedChooser:
    """Replays one recorded choice sequence (default 0 afterwards)."""
    bounded = True

    def __init__(self, choices: list[int]) -> None:
        self.fixed = list(choices)
        self.pos = 0

    def beyond_prefix(self) -> bool:
        return False

    def choose(self, n: int, key=None, costs=None) -> int:
        if n == 1:
            return 0
        c = 0
        if self.pos < len(self.fixed):
            c = self.fixed[self.pos]
            if c >= n:
                raise Divergence(f"replay: alternative {c} of {n} at "
                                 f"position {self.pos}")
        self.pos += 1
        return c


class Explorer:

    def __init__(self,
                 run: Callable[[Chooser], object],
                 bound: int | None = None,
                 cache: bool = True,
                 max_executions: int | None = None,
                 record_forced: bool = False,
                 max_seconds: float | None = None) -> None:
        self.run = run
        self.bound = bound
        self.cache: dict | None = {} if cache else None
        self.max_executions = max_executions
        self.max_seconds = max_seconds
        self.record_forced = record_forced
        self.executions = 0
        self.pruned = 0
        self.transitions = 0
        self.complete_runs = 0
        self.capped = False
        self.max_depth = 0

    def explore(self, on_result: Callable[[list[int], object], None]) -> None:
        """Run all executions; ``on_result(choices, result)`` for each
        execution that ran to its end (not pruned)."""
        import time as _time
        t0 = _time.time()
        stack: list[tuple[list[int], int]] = [([], 0)]
        while stack:
            if (self.max_executions is not None and
                    self.executions >= self.max_executions):
                self.capped = True
                return
            if (self.max_seconds is not None and
                    _time.time() - t0 > self.max_seconds):
                # a cap is reported as a cap, never as full coverage
                self.capped = True
                return
            prefix, pdev = stack.pop()
            ch = Chooser(self, prefix, pdev)
            self.executions += 1
            result = self.run(ch)
            if len(ch.choices) < len(prefix):
                raise Divergence(
                    f"execution ended after {len(ch.choices)} choices, "
                    f"prefix has {len(prefix)}")
            self.max_depth = max(self.max_depth, len(ch.choices))
            if not ch.pruned:
                self.complete_runs += 1
                on_result(list(ch.choices), result)
            # schedule alternatives (reverse order so that lower alternatives
            # and earlier positions are explored first by the LIFO stack)
            for i in range(len(ch.choices) - 1, len(prefix) - 1, -1):
                n = ch.ns[i]
                for alt in range(n - 1, 0, -1):
                    cost = ch.costs[i][alt] if ch.costs[i] else 1
                    dev = ch.dev_before[i] + cost
                    if self.bound is not None and dev > self.bound:
                        continue
                    stack.append((ch.choices[:i] + [alt], dev))

    def stats(self) -> dict:
        return {
            "executions": self.executions,
            "complete_executions": self.complete_runs,
            "pruned_executions": self.pruned,
            "states": len(self.cache) if self.cache is not None else 0,
            "transitions": self.transitions,
            "max_depth": self.max_depth,
            "bound": self.bound,
            "capped": self.capped,
        }
