"""CLI: python -m vf <ID> [--tier quick|thorough]  |  python -m vf replay <path>"""
import argparse
import importlib
import json
import os
import sys
import traceback

from vf import core


def main() -> int:
    ap = argparse.ArgumentParser(prog="vf")
    ap.add_argument("what", help="property id (C01..C20) or 'replay'")
    ap.add_argument("path", nargs="?")
    ap.add_argument("--tier", default=os.environ.get("VERIF_TIER", "quick"))
    a = ap.parse_args()
    core.quiet_env()
    if a.what == "replay":
        data = json.loads(open(a.path).read())
        pid = data["property"]
        mod = importlib.import_module(f"vf.checks.{pid.lower()}")
        bad = mod.replay(data["case"])
        if bad:
            print(f"VIOLATION property={pid} replay={a.path}")
            for b in bad:
                print("  what:", b)
            return 1
        print(f"replay of {a.path}: property {pid} holds on this case")
        return 0
    pid = a.what.upper()
    tier = a.tier if a.tier in ("quick", "thorough") else "quick"
    seed = int(os.environ.get("VERIF_SEED", "0") or 0)
    core.clean_stale_scratch()
    ctx = core.Ctx(pid, tier, seed)
    try:
        mod = importlib.import_module(f"vf.checks.{pid.lower()}")
        mod.run(ctx)
    except Exception:  # pylint: disable=broad-except
        traceback.print_exc()
        ctx.harness_error("check crashed: " +
                          traceback.format_exc().splitlines()[-1])
    return ctx.finish()


if __name__ == "__main__":
    sys.exit(main())
