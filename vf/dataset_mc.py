"""Dataset-level controlled exploration (E2 + E3 jointly, stateless, bounded).

Inside a worker that has sedpack imported the following seams are switched on
for the duration of one exploration (module attributes only, no source hook):

* ``sedpack.io.dataset_iteration.LazyPool``  -> class of the controlled copy of
  lazy_pool.py (cooperative scheduler, vf.sched)
* ``sedpack.io.dataset_iteration.ThreadPoolExecutor`` -> cooperative executor
  built from the same fake primitives (all completion orders of a batch)
* ``sedpack.io.itertools.itertools.{initial_random_state, next_random_state,
  random}`` -> explorer choices (every random draw)

One Chooser decides both kinds of choices; the deviation bound counts
preemptions and non-default random answers together.
"""
from __future__ import annotations

import asyncio
import collections
import contextlib
import shutil
import sys
import time
import traceback

from vf import core, sched, ds as D, dsfamily, itertools_mc
from vf.explorer import Explorer, FixedChooser, Divergence

_OPENS = {"on": False, "root": "", "n": 0}
_HOOKED = False


def _audit(event, args):
    if event == "open" and _OPENS["on"]:
        p = args[0]
        if isinstance(p, (str, bytes)):
            p = p if isinstance(p, str) else p.decode(errors="ignore")
            if p.startswith(_OPENS["root"]) and p.endswith(
                (".fb", ".npz", ".tfrec")):
                _OPENS["n"] += 1


def ensure_hook():
    global _HOOKED
    if not _HOOKED:
        sys.addaudithook(_audit)
        _HOOKED = True


# ---------------------------------------------------------------------------
# cooperative ThreadPoolExecutor
# ---------------------------------------------------------------------------
class FakeFuture:

    def __init__(self) -> None:
        self._done = False
        self._result = None
        self._exc = None
        self._cancelled = False
        self._vid = ("F",)

    def done(self) -> bool:
        return self._done

    def cancel(self) -> bool:
        if self._done:
            return False
        self._cancelled = True
        return True

    def result(self, timeout=None):
        sched._sched().point("fut_result", self, lambda: self._done)
        if self._exc is not None:
            raise self._exc
        return self._result

    def exception(self, timeout=None):
        sched._sched().point("fut_exc", self, lambda: self._done)
        return self._exc


class FakeExecutor:

    def __init__(self, max_workers=None, *a, **kw) -> None:
        self._max = max_workers or 4
        self._q = sched.FakeQueue()
        self._threads: list = []
        self._shutdown = False

    def __enter__(self):
        return self

    def __exit__(self, *exc):
        self.shutdown(wait=True)
        return False

    def _worker(self) -> None:
        while True:
            item = self._q.get()
            if item is None:
                return
            fut, fn, args, kw = item
            if fut._cancelled:
                fut._done = True
                continue
            try:
                fut._result = fn(*args, **kw)
            except BaseException as e:  # pylint: disable=broad-except
                if isinstance(e, sched.Abort):
                    raise
                fut._exc = e
            fut._done = True

    def submit(self, fn, *args, **kw):
        if self._shutdown:
            raise RuntimeError("cannot schedule new futures after shutdown")
        fut = FakeFuture()
        self._q.put((fut, fn, args, kw))
        if len(self._threads) < self._max:
            t = sched.FakeThread(target=self._worker)
            t.start()
            self._threads.append(t)
        return fut

    def map(self, fn, *iterables, timeout=None, chunksize=1):
        fs = [self.submit(fn, *a) for a in zip(*iterables)]

        def gen():
            try:
                fs.reverse()
                while fs:
                    yield fs.pop().result()
            finally:
                for f in fs:
                    f.cancel()

        return gen()

    def shutdown(self, wait=True, cancel_futures=False) -> None:
        self._shutdown = True
        for _ in self._threads:
            self._q.put(None)
        if wait:
            for t in self._threads:
                t.join()


def fake_as_completed(fs, timeout=None):
    fs = list(fs)
    while fs:
        s = sched._sched()
        s.point("as_completed", None, lambda: any(f._done for f in fs))
        done = [f for f in fs if f._done]
        # which finished future is handed out first is itself a choice
        i = s.chooser.choose(len(done)) if len(done) > 1 else 0
        f = done[i]
        fs.remove(f)
        yield f


def fake_wait(fs, timeout=None, return_when="ALL_COMPLETED"):
    fs = list(fs)
    s = sched._sched()
    if return_when == "FIRST_COMPLETED":
        s.point("wait", None, lambda: any(f._done for f in fs))
    else:
        s.point("wait", None, lambda: all(f._done for f in fs))
    done = {f for f in fs if f._done}
    return done, set(fs) - done


# ---------------------------------------------------------------------------
_CTRL = None


def controlled_lazy_pool():
    global _CTRL
    if _CTRL is None:
        from vf.lazypool_mc import LAZY_POOL
        _CTRL = sched.load_controlled(LAZY_POOL, "vf_controlled_lazy_pool_ds")
    return _CTRL


@contextlib.contextmanager
def seams(chooser):
    """Switch all seams on for one execution."""
    import sedpack.io.dataset_iteration as di
    import sedpack.io.itertools.itertools as it
    saved_di = {}
    subst = {
        "LazyPool": controlled_lazy_pool().LazyPool,
        "ThreadPoolExecutor": FakeExecutor,
        "as_completed": fake_as_completed,
        "wait": fake_wait,
    }
    for k, v in subst.items():
        if hasattr(di, k):
            saved_di[k] = getattr(di, k)
            setattr(di, k, v)
    # a `random` module imported by the iteration module itself is a
    # source of nondeterminism too
    if hasattr(di, "random"):
        saved_di["random"] = di.random
        di.random = itertools_mc.FakeRandom()
    saved_it = {k: getattr(it, k)
                for k in ("initial_random_state", "next_random_state",
                          "random")}
    itertools_mc.Holder.chooser = chooser
    itertools_mc.Holder.points = 0
    itertools_mc.install_seams(it)
    try:
        yield
    finally:
        for k, v in saved_di.items():
            setattr(di, k, v)
        for k, v in saved_it.items():
            setattr(it, k, v)


class Counting:
    """process_record that counts applications per example."""

    def __init__(self):
        self.calls = collections.Counter()

    def __call__(self, ex):
        idt = D.to_id(ex)
        self.calls[idt] += 1
        return ("tag", idt)


def run_once(dataset, cfg: dict, chooser) -> dict:
    """One controlled pass.  cfg: split, iface, shuffle, par, take."""
    from vf.lazypool_mc import LAZY_POOL
    ensure_hook()
    iface, split = cfg["iface"], cfg["split"]
    take = cfg.get("take")
    pr = Counting()
    got: list = []
    info = {"opens_at_take": None, "err": None}
    kw = dict(split=split, shuffle=cfg["shuffle"],
              repeat=bool(cfg.get("repeat", False)), process_record=pr)
    if iface != "sync":
        kw["file_parallelism"] = cfg["par"]
    if iface == "rust" and "file_parallelism" not in kw:
        kw["file_parallelism"] = 2
    _OPENS.update(on=True, root=str(dataset.path), n=0)

    def consume():
        if iface == "async":

            async def go():
                agen = dataset.as_numpy_iterator_async(**kw)
                async for e in agen:
                    got.append(e[1])
                    if take is not None and len(got) >= take:
                        break
                await agen.aclose()

            asyncio.run(go())
        else:
            fn = {"sync": dataset.as_numpy_iterator,
                  "concurrent": dataset.as_numpy_iterator_concurrent,
                  "rust": dataset.as_numpy_iterator_rust}[iface]
            gen = fn(**kw)
            for e in gen:
                got.append(e[1])
                if take is not None and len(got) >= take:
                    break
            gen.close()
        info["opens_at_take"] = _OPENS["n"]
        return "ok"

    s = sched.Scheduler(chooser, watched_files=(LAZY_POOL,),
                        watched_mods=("vf_controlled_lazy_pool_ds",),
                        use_cache=False, every_switch_costs=True,
                        workers_first=bool(cfg.get("workers_first")))
    with seams(chooser):
        res, exc = s.run_main(consume)
    _OPENS["on"] = False
    return {
        "got": got,
        "calls": pr.calls,
        "exc": None if exc is None else f"{type(exc).__name__}: {str(exc)[:200]}",
        "deadlock": s.deadlock,
        "blocked": s.blocked_at_end,
        "threads": len(s.threads),
        "divergence": s.divergence,
        "horizon": s.horizon,
        "opens": info["opens_at_take"],
        "rand_points": itertools_mc.Holder.points,
        "sched_points": s.points,
        "schedule": s.trace[:40],
    }


def judge(cfg: dict, r: dict, want: list, sync_order: list, nshards: int):
    """Returns [(property, symptom, message)]."""
    bad = []
    desc = (f"{cfg['iface']} shuffle={cfg['shuffle']} "
            f"file_parallelism={cfg.get('par')}" +
            (" (eager workers)" if cfg.get("workers_first") else ""))
    if r.get("horizon"):
        bad.append(("C14", "horizon",
                    f"{desc}: the execution did not come to rest within the "
                    f"horizon of scheduling points"))
        return bad
    if r["deadlock"]:
        bad.append(("C02", "deadlock",
                    f"{desc}: deadlock, blocked={r['blocked']}"))
        return bad
    if r["exc"]:
        bad.append(("C02", "raises", f"{desc}: {r['exc']}"))
        return bad
    take = cfg.get("take")
    got = r["got"]
    if take is None:
        if collections.Counter(got) != collections.Counter(want):
            miss = collections.Counter(want) - collections.Counter(got)
            extra = collections.Counter(got) - collections.Counter(want)
            bad.append(("C02", "multiset",
                        f"{desc}: missing {sorted(miss.elements())} "
                        f"duplicated/foreign {sorted(extra.elements())}"))
        if cfg["shuffle"] == 0 and got != sync_order and collections.Counter(
                got) == collections.Counter(want):
            bad.append(("C03", "order",
                        f"{desc}: unshuffled order {got} differs from the "
                        f"sequential order {sync_order}"))
    else:
        if len(got) != take:
            bad.append(("C14", "short",
                        f"{desc}: asked for {take} examples, got "
                        f"{len(got)}"))
        if set(got) - set(want):
            bad.append(("C19", "foreign",
                        f"{desc}: foreign examples "
                        f"{sorted(set(got) - set(want))}"))
        if cfg["iface"] == "rust" and cfg.get("repeat") and want:
            N = len(want)
            for b in range(0, len(got) - N + 1, N):
                if collections.Counter(got[b:b + N]) != collections.Counter(
                        want):
                    bad.append(("C19", "epoch",
                                f"{desc}: epoch {b // N} of the Rust stream "
                                f"= {got[b:b + N]} is not a permutation of "
                                f"the split"))
                    break
        if cfg["shuffle"] == 0 and cfg.get("repeat") and want:
            exp = [sync_order[i % len(sync_order)] for i in range(len(got))]
            if got != exp:
                bad.append(("C19", "period",
                            f"{desc}: repeating unshuffled stream {got} is "
                            f"not the periodic repetition of {sync_order}"))
    # process_record applied exactly once per yielded example
    yielded = collections.Counter(got)
    over = {k: v for k, v in r["calls"].items() if v > yielded.get(k, 0)}
    if take is None and (over or sum(r["calls"].values()) != len(got)):
        bad.append(("C02", "process-record",
                    f"{desc}: process_record applied {dict(r['calls'])} for "
                    f"yielded {dict(yielded)}"))
    # C14: shard opens bounded by buffers alone
    par = cfg.get("par") or 1
    cap = 4 * (par + 1) + 8
    if take is not None and r["opens"] is not None:
        eps_ = max(1, len(want) // max(nshards, 1))
        needed = -(-take // eps_)
        if r["opens"] > needed + cap:
            bad.append(("C14", "read-ahead",
                        f"{desc}: {r['opens']} shard opens for {take} "
                        f"examples (needed ~{needed}, cap +{cap})"))
    return bad


def explore_dataset(args) -> dict:
    """Build one recipe, then explore all its configurations."""
    name, cfgs, bound, max_exec = args
    root = core.fresh_dir("dmc")
    out = {"name": name, "results": [], "harness": []}
    try:
        from sedpack.io import Dataset
        _, ref = dsfamily.build(root, name)
        dataset = Dataset(root)
        for cfg in cfgs:
            want = ref[cfg["split"]]
            sync_order = D.ids(dataset, cfg["split"], "sync")
            nsh = dsfamily.n_shards(dataset, cfg["split"])
            t0 = time.time()
            viol = []
            outcomes = set()
            mx = {"opens": 0, "threads": 0, "rand": 0, "sp": 0}
            sample = []

            def run(ch):
                return run_once(dataset, cfg, ch)

            def on_result(choices, r):
                if r["divergence"]:
                    out["harness"].append(f"{name} {cfg}: DIVERGENCE "
                                          f"{r['divergence']}")
                    return
                outcomes.add(tuple(r["got"]))
                mx["opens"] = max(mx["opens"], r["opens"] or 0)
                mx["threads"] = max(mx["threads"], r["threads"])
                mx["rand"] = max(mx["rand"], r["rand_points"])
                mx["sp"] = max(mx["sp"], r["sched_points"])
                if not sample:
                    sample.append({"choices": choices[:30],
                                   "schedule": r["schedule"],
                                   "yielded": [list(x) for x in r["got"][:8]]})
                bad = judge(cfg, r, want, sync_order, nsh)
                if bad and len(viol) < 3:
                    r2 = run_once(dataset, cfg, FixedChooser(choices))
                    bad2 = judge(cfg, r2, want, sync_order, nsh)
                    if bad2 == bad:
                        viol.append({"choices": choices, "bad": bad})
                    else:
                        out["harness"].append(
                            f"NONDETERMINISM {name} {cfg} {choices}: {bad} "
                            f"vs {bad2}")

            ex = Explorer(run, bound=bound, cache=False,
                          max_executions=max_exec)
            try:
                ex.explore(on_result)
            except Divergence as d:
                out["harness"].append(f"{name} {cfg}: DIVERGENCE {d}")
            st = ex.stats()
            if cfg["iface"] == "concurrent" and mx["threads"] <= 1:
                out["harness"].append(
                    f"{name} {cfg}: no controlled thread was ever started - "
                    f"the LazyPool/ThreadPoolExecutor seam is bypassed")
            st.update(cfg=cfg, distinct_outputs=len(outcomes),
                      violations=viol, max_opens=mx["opens"],
                      max_threads=mx["threads"], rand_points=mx["rand"],
                      sched_points=mx["sp"], sample=sample,
                      wall_s=round(time.time() - t0, 2))
            out["results"].append(st)
    except Exception as e:  # pylint: disable=broad-except
        out["harness"].append(f"{name}: {type(e).__name__}: {e} " +
                              traceback.format_exc()[-500:])
    finally:
        shutil.rmtree(root, ignore_errors=True)
    return out


def plan(tier: str, what: str) -> list[tuple]:
    """Configurations per recipe.  what: 'once' (C02/C03), 'take' (C14/C19)."""
    out = []
    bound = 2 if tier == "thorough" else 1
    recipes = {
        "flat": ["train", "test"],
        "nested": ["train"],
        "multi": ["train"],
        "flat5": ["train"],
        "npz": ["train"],
    }
    if tier == "thorough":
        recipes["cont"] = ["train", "test"]
        recipes["npznest"] = ["train"]
    for name, splits in recipes.items():
        cfgs = []
        for split in splits:
            if what == "once":
                for sh in (0, 2, 9):
                    for par in (1, 2, 4):
                        cfgs.append(dict(split=split, iface="concurrent",
                                         shuffle=sh, par=par))
                for sh in (1, 3, 9):
                    cfgs.append(dict(split=split, iface="sync", shuffle=sh))
                for sh in (0, 2):
                    for par in (1, 3):
                        cfgs.append(dict(split=split, iface="async",
                                         shuffle=sh, par=par))
                if dsfamily.RECIPES[name][0] == "fb":
                    for sh in (2, 9):
                        cfgs.append(dict(split=split, iface="rust",
                                         shuffle=sh, par=2))
            else:
                for sh in (0, 2):
                    for par in (1, 2):
                        for take in (1, 7):
                            cfgs.append(dict(split=split, iface="concurrent",
                                             shuffle=sh, par=par, take=take,
                                             repeat=True))
                for sh in (0, 3):
                    cfgs.append(dict(split=split, iface="sync", shuffle=sh,
                                     take=8, repeat=True))
                    cfgs.append(dict(split=split, iface="async", shuffle=sh,
                                     par=2, take=8, repeat=True))
                if dsfamily.RECIPES[name][0] == "fb":
                    for sh in (0, 2):
                        cfgs.append(dict(split=split, iface="rust",
                                         shuffle=sh, par=2, take=16,
                                         repeat=True))
        if what != "once" and name == "flat":
            # many small shards, slow consumer: workers run whenever they can
            many = []
            for sh in (0, 3):
                for par in (2, 4):
                    for rep in (False, True):
                        many.append(dict(split="train", iface="concurrent",
                                         shuffle=sh, par=par, take=16,
                                         repeat=rep, workers_first=True))
            for i in range(0, len(many), 2):
                out.append(("many64", many[i:i + 2], 1, 20000))
        # split the work of one recipe over several workers
        for i in range(0, len(cfgs), 4):
            b = bound + 1 if name == "flat" else bound
            out.append((name, cfgs[i:i + 4], b,
                        20000 if tier == "quick" else 200000))
    return out


def run_controlled(ctx, ex, tags: set[str], what: str = "once") -> None:
    tasks = plan(ctx.tier, what)
    other = collections.Counter()
    n_exec = n_trans = n_out = 0
    n_cfg = 0
    capped = 0
    for r in ex.map(explore_dataset, tasks):
        for h in r["harness"]:
            ctx.harness_error(h)
        for st in r["results"]:
            n_cfg += 1
            n_exec += st["executions"]
            n_trans += st["transitions"]
            n_out += st["distinct_outputs"]
            capped += 1 if st["capped"] else 0
            if st["sample"] and st["cfg"]["iface"] == "concurrent":
                ctx.sample({"recipe": r["name"], "cfg": st["cfg"],
                            **st["sample"][0]}, limit=8)
            for v in st["violations"]:
                for prop, sym, msg in v["bad"]:
                    if prop in tags:
                        ctx.violation(
                            {"engine": "dataset_mc", "symptom": sym,
                             "iface": st["cfg"]["iface"],
                             "shuffled": bool(st["cfg"]["shuffle"])},
                            f"recipe {r['name']} split {st['cfg']['split']}: "
                            f"{msg}",
                            {"kind": "controlled", "name": r["name"],
                             "cfg": st["cfg"], "choices": v["choices"],
                             "tags": sorted(tags)})
                    else:
                        other[prop] += 1
    ctx.part(f"dataset level, controlled ({what}): lazy pool / executor "
             f"threads under the cooperative scheduler + all random draws, "
             f"deviation bound {2 if ctx.tier == 'thorough' else 1}",
             configurations=n_cfg, executions=n_exec,
             choice_transitions=n_trans, distinct_outputs=n_out,
             configurations_capped=capped)
    ctx.add(states=n_out, transitions=n_trans,
            traces_validated_against_impl=n_exec)
    if other:
        ctx.cov.setdefault("violations_of_other_properties_seen",
                           {}).update(other)


def replay(case: dict) -> list[str]:
    core.import_sedpack_quietly()
    from sedpack.io import Dataset
    root = core.fresh_dir("rp")
    try:
        _, ref = dsfamily.build(root, case["name"])
        dataset = Dataset(root)
        cfg = case["cfg"]
        r = run_once(dataset, cfg, FixedChooser(case["choices"]))
        bad = judge(cfg, r, ref[cfg["split"]],
                    D.ids(dataset, cfg["split"], "sync"),
                    dsfamily.n_shards(dataset, cfg["split"]))
        tags = set(case.get("tags", []))
        return [m for p, s, m in bad if not tags or p in tags]
    finally:
        shutil.rmtree(root, ignore_errors=True)
