"""Differential self-test of the fake primitives against the real ones.

Small programs are written against a namespace that provides `threading`,
`queue`, `time`.  Each is (a) explored exhaustively under the cooperative
scheduler with the fakes and (b) run many times on real threads.  Every
outcome seen with the real primitives must be among the outcomes the fakes
allow (a fake that is too restrictive would hide interleavings), and programs
whose outcome is schedule independent must agree exactly.
"""
from __future__ import annotations

import queue as real_queue
import threading as real_threading
import time as real_time
import types

from vf import sched
from vf.explorer import Explorer


def prog_bounded_queue(ns):
    """2 producers x 2 items through Queue(maxsize=1); consumer order."""
    q = ns.queue.Queue(maxsize=1)
    out = []

    def prod(k):
        for i in range(2):
            q.put((k, i))

    ts = [ns.threading.Thread(target=prod, args=(k,)) for k in range(2)]
    for t in ts:
        t.start()
    for _ in range(4):
        out.append(q.get())
    for t in ts:
        t.join()
    return tuple(out)


def prog_sentinel_pool(ns):
    """The protocol shape of the lazy pool: workers map, forward a sentinel."""
    a, b = ns.queue.Queue(), ns.queue.Queue()

    def work():
        while True:
            x = a.get()
            if x is None:
                b.put(None)
                return
            b.put(x * 2)
            ns.time.sleep(0)

    ts = [ns.threading.Thread(target=work) for _ in range(2)]
    for t in ts:
        t.start()
    for x in (1, 2, 3, None, None):
        a.put(x)
    got, alive = [], 2
    while alive:
        y = b.get()
        if y is None:
            alive -= 1
        else:
            got.append(y)
    for t in ts:
        t.join()
    return tuple(sorted(got))  # schedule independent


def prog_lock_event(ns):
    """Lock protected counter + Event + get_nowait/Empty."""
    lock = ns.threading.Lock()
    ev = ns.threading.Event()
    q = ns.queue.Queue()
    box = {"n": 0}

    def inc():
        for _ in range(2):
            with lock:
                v = box["n"]
                ns.time.sleep(0)
                box["n"] = v + 1
        q.put("done")

    def waiter():
        ev.wait()
        q.put(("seen", box["n"] >= 0))

    ts = [ns.threading.Thread(target=inc) for _ in range(2)]
    w = ns.threading.Thread(target=waiter)
    for t in ts + [w]:
        t.start()
    try:
        first = q.get_nowait()
    except ns.queue.Empty:
        first = "empty"
    ev.set()
    for t in ts + [w]:
        t.join()
    rest = []
    while True:
        try:
            rest.append(q.get(block=False))
        except ns.queue.Empty:
            break
    n = box["n"]
    return (n, len(rest) + (0 if first == "empty" else 1))  # always (4, 3)


def prog_timed(ns):
    """Waits with a time-out: a polling consumer (Queue.get(timeout)), a
    producer that is sometimes slower than the time-out, Event.wait(timeout)
    and a timed join.  Outcome: what was received, and whether any time-out
    expired at all."""
    q = ns.queue.Queue()
    go = ns.threading.Event()
    box = {"slow": False}

    def producer():
        if box["slow"]:
            ns.time.sleep(0.03)
        q.put("item")
        go.wait(0.5)

    outcome = []
    for slow in (False, True):
        box["slow"] = slow
        t = ns.threading.Thread(target=producer)
        t.start()
        expired = 0
        while True:
            try:
                x = q.get(timeout=0.005)
                break
            except ns.queue.Empty:
                expired += 1
                if expired > 1000:
                    x = None
                    break
        go.set()
        t.join(5)
        outcome.append((x, min(expired, 1)))
    return tuple(outcome)


PROGRAMS = {
    "timed": (prog_timed, False),
    "bounded_queue": (prog_bounded_queue, False),
    "sentinel_pool": (prog_sentinel_pool, True),
    "lock_event": (prog_lock_event, True),
}


def explore_fake(fn, bound=3) -> tuple[set, dict]:
    fakes = sched.fake_modules()
    ns = types.SimpleNamespace(threading=fakes["threading"],
                               queue=fakes["queue"], time=fakes["time"])
    outcomes = set()
    problems = []

    def run(ch):
        s = sched.Scheduler(ch, use_cache=False)
        res, exc = s.run_main(lambda: fn(ns))
        return res, exc, s.deadlock

    def on_result(choices, r):
        res, exc, dead = r
        if exc is not None or dead:
            problems.append(f"{choices}: exc={exc!r} deadlock={dead}")
        else:
            outcomes.add(res)

    ex = Explorer(run, bound=bound, cache=False, max_executions=60000)
    ex.explore(on_result)
    st = ex.stats()
    st["problems"] = problems[:3]
    return outcomes, st


def run_real(fn, reps=150) -> set:
    ns = types.SimpleNamespace(threading=real_threading, queue=real_queue,
                               time=real_time)
    return {fn(ns) for _ in range(reps)}


def selftest(thorough=False) -> tuple[list[str], dict]:
    """Returns (harness errors, stats)."""
    errors, stats = [], {}
    for name, (fn, deterministic) in PROGRAMS.items():
        bound = 3 if name == "bounded_queue" else (2 if thorough else 1)
        fake, st = explore_fake(fn, bound)
        real = run_real(fn, 150 if thorough else 40)
        stats[name] = {"fake_outcomes": len(fake), "real_outcomes": len(real),
                       "executions": st["executions"], "capped": st["capped"]}
        if st["problems"]:
            errors.append(f"selftest {name}: fakes produce a failure the "
                          f"program cannot have: {st['problems']}")
        if not real <= fake:
            errors.append(f"selftest {name}: real primitives produced "
                          f"{sorted(real - fake)[:3]} which the fakes never "
                          f"allow (fake too restrictive)")
        if deterministic and fake != real:
            errors.append(f"selftest {name}: deterministic program, fakes "
                          f"give {sorted(fake)[:3]} real gives "
                          f"{sorted(real)[:3]}")
    return errors, stats
