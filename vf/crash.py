"""E4: crash-point / torn-write enumeration from a recorded effect log.

A writer history runs once, for real, in a child process under strace.  The
log gives the ordered file-system effects with payloads.  Every prefix of the
effect sequence (and torn variants of every write) is materialised into a
fresh directory and the recovery oracle of C06 is evaluated on it.
"""
from __future__ import annotations

import collections
import json
import os
import re
import shutil
import subprocess
import sys
import time
import traceback
from pathlib import Path

from vf import core

HEX = r'(?:\\x[0-9a-f]{2})*'
TRACE = ("openat,creat,write,pwrite64,writev,close,rename,renameat,renameat2,"
         "mkdir,mkdirat,unlink,unlinkat,ftruncate,truncate,link,linkat,lseek,"
         "rmdir")


def unhex(s: str) -> bytes:
    return bytes.fromhex(s.replace("\\x", ""))


def upath(s: str) -> str:
    return unhex(s).decode("utf-8", "surrogateescape")


RE_LINE = re.compile(r"^(\d+)\s+(.*)$")
RE_OPEN = re.compile(
    r'^openat\((?:AT_FDCWD|\d+)(?:<(' + HEX + r')>)?, "(' + HEX +
    r')", ([A-Z_|0-9x]+)(?:, 0?[0-7]+)?\)\s+= (-?\d+)')
RE_CREAT = re.compile(r'^creat\("(' + HEX + r')", 0?[0-7]+\)\s+= (-?\d+)')
RE_WRITE = re.compile(r'^write\((\d+)<(' + HEX + r')>, "(' + HEX +
                      r')"(?:\.\.\.)?, (\d+)\)\s+= (-?\d+)')
RE_PWRITE = re.compile(r'^pwrite64\((\d+)<(' + HEX + r')>, "(' + HEX +
                       r')"(?:\.\.\.)?, (\d+), (\d+)\)\s+= (-?\d+)')
RE_WRITEV = re.compile(r'^writev\((\d+)<(' + HEX + r')>, \[(.*)\], (\d+)\)\s+'
                       r'= (-?\d+)')
RE_IOV = re.compile(r'iov_base="(' + HEX + r')"(?:\.\.\.)?, iov_len=(\d+)')
RE_LSEEK = re.compile(r'^lseek\((\d+)<(' + HEX + r')>, (-?\d+), (\w+)\)\s+= '
                      r'(-?\d+)')
RE_CLOSE = re.compile(r'^close\((\d+)(?:<(' + HEX + r')>)?\)\s+= (-?\d+)')
RE_RENAME = re.compile(r'^rename\("(' + HEX + r')", "(' + HEX +
                       r')"\)\s+= (-?\d+)')
RE_RENAMEAT = re.compile(
    r'^renameat2?\((?:AT_FDCWD|\d+)(?:<' + HEX + r'>)?, "(' + HEX +
    r')", (?:AT_FDCWD|\d+)(?:<' + HEX + r'>)?, "(' + HEX +
    r')"(?:, \w+)?\)\s+= (-?\d+)')
RE_MKDIR = re.compile(r'^mkdir\("(' + HEX + r')", 0?[0-7]+\)\s+= (-?\d+)')
RE_MKDIRAT = re.compile(r'^mkdirat\((?:AT_FDCWD|\d+)(?:<' + HEX + r'>)?, "(' +
                        HEX + r')", 0?[0-7]+\)\s+= (-?\d+)')
RE_UNLINK = re.compile(r'^(?:unlink|rmdir)\("(' + HEX + r')"\)\s+= (-?\d+)')
RE_UNLINKAT = re.compile(r'^unlinkat\((?:AT_FDCWD|\d+)(?:<' + HEX +
                         r'>)?, "(' + HEX + r')", \w+\)\s+= (-?\d+)')
RE_FTRUNC = re.compile(r'^ftruncate\((\d+)<(' + HEX + r')>, (\d+)\)\s+= '
                       r'(-?\d+)')
RE_TRUNC = re.compile(r'^truncate\("(' + HEX + r')", (\d+)\)\s+= (-?\d+)')
RE_LINK = re.compile(r'^link\("(' + HEX + r')", "(' + HEX + r')"\)\s+= '
                     r'(-?\d+)')
MARK = "/proc/vfmark/"


def parse_trace(path: Path, root: str) -> list[dict]:
    """Ordered list of effects {pid, op, ...} on paths under ``root`` plus
    markers {op: 'mark', name}."""
    pending: dict[str, str] = {}
    fds: dict[tuple[str, int], dict] = {}
    eff: list[dict] = []
    sizes: dict[str, int] = {}
    root = root.rstrip("/")

    def inside(p: str) -> bool:
        return p == root or p.startswith(root + "/")

    with open(path, encoding="utf-8", errors="replace") as f:
        for raw in f:
            m = RE_LINE.match(raw.rstrip("\n"))
            if not m:
                continue
            pid, rest = m.group(1), m.group(2)
            if rest.endswith("<unfinished ...>"):
                pending[pid] = rest[:-len("<unfinished ...>")].rstrip()
                continue
            r = re.match(r"^<\.\.\. (\w+) resumed>(.*)$", rest)
            if r:
                rest = pending.pop(pid, "") + r.group(2)
            if rest.startswith("+++") or rest.startswith("---"):
                continue
            name = rest.split("(", 1)[0]
            if name in ("mkdir", "mkdirat"):
                mm = (RE_MKDIR if name == "mkdir" else RE_MKDIRAT).match(rest)
                if not mm:
                    raise core.HarnessError(f"unparsed: {rest[:200]}")
                p = upath(mm.group(1))
                if p.startswith(MARK):
                    eff.append({"pid": pid, "op": "mark",
                                "name": p[len(MARK):]})
                elif inside(p) and int(mm.group(2)) == 0:
                    eff.append({"pid": pid, "op": "mkdir", "path": p})
                continue
            if name in ("openat", "creat"):
                if name == "openat":
                    mm = RE_OPEN.match(rest)
                    if not mm:
                        raise core.HarnessError(f"unparsed: {rest[:200]}")
                    p, flags, ret = upath(mm.group(2)), mm.group(3), int(
                        mm.group(4))
                    if not p.startswith("/"):
                        base = upath(mm.group(1)) if mm.group(1) else ""
                        p = os.path.normpath(os.path.join(base, p))
                else:
                    mm = RE_CREAT.match(rest)
                    p, flags, ret = upath(
                        mm.group(1)), "O_WRONLY|O_CREAT|O_TRUNC", int(
                            mm.group(2))
                if ret < 0 or not inside(p):
                    continue
                fl = set(flags.split("|"))
                writable = bool(fl & {"O_WRONLY", "O_RDWR"})
                fds[(pid, ret)] = {"path": p, "off": 0,
                                   "append": "O_APPEND" in fl,
                                   "writable": writable}
                if "O_CREAT" in fl and p not in sizes:
                    eff.append({"pid": pid, "op": "create", "path": p})
                    sizes[p] = 0
                if "O_TRUNC" in fl and writable:
                    if sizes.get(p, 0) != 0:
                        eff.append({"pid": pid, "op": "truncate", "path": p,
                                    "len": 0})
                    sizes[p] = 0
                continue
            if name in ("write", "pwrite64", "writev"):
                if name == "write":
                    mm = RE_WRITE.match(rest)
                    if not mm:
                        if re.match(r'^write\(\d+<', rest):
                            raise core.HarnessError(f"unparsed: {rest[:200]}")
                        continue
                    fd, data, ret = int(mm.group(1)), unhex(
                        mm.group(3)), int(mm.group(5))
                    off = None
                elif name == "pwrite64":
                    mm = RE_PWRITE.match(rest)
                    if not mm:
                        continue
                    fd, data, ret = int(mm.group(1)), unhex(
                        mm.group(3)), int(mm.group(6))
                    off = int(mm.group(5))
                else:
                    mm = RE_WRITEV.match(rest)
                    if not mm:
                        continue
                    fd, ret = int(mm.group(1)), int(mm.group(5))
                    data = b"".join(
                        unhex(x)[:int(n)]
                        for x, n in RE_IOV.findall(mm.group(3)))
                    off = None
                st = fds.get((pid, fd))
                if st is None or ret <= 0:
                    continue
                if len(data) < ret:
                    raise core.HarnessError(
                        f"strace truncated a payload ({len(data)} < {ret})")
                data = data[:ret]
                p = st["path"]
                if off is None:
                    if st["append"]:
                        st["off"] = sizes.get(p, 0)
                    off = st["off"]
                    st["off"] = off + ret
                eff.append({"pid": pid, "op": "write", "path": p, "off": off,
                            "data": data})
                sizes[p] = max(sizes.get(p, 0), off + ret)
                continue
            if name == "lseek":
                mm = RE_LSEEK.match(rest)
                if mm:
                    st = fds.get((pid, int(mm.group(1))))
                    if st is not None and int(mm.group(5)) >= 0:
                        st["off"] = int(mm.group(5))
                continue
            if name == "close":
                mm = RE_CLOSE.match(rest)
                if mm:
                    st = fds.pop((pid, int(mm.group(1))), None)
                    if st is not None and st["writable"]:
                        eff.append({"pid": pid, "op": "close",
                                    "path": st["path"]})
                continue
            if name in ("rename", "renameat", "renameat2"):
                mm = (RE_RENAME if name == "rename" else
                      RE_RENAMEAT).match(rest)
                if not mm:
                    raise core.HarnessError(f"unparsed: {rest[:200]}")
                a, b, ret = upath(mm.group(1)), upath(mm.group(2)), int(
                    mm.group(3))
                if ret == 0 and (inside(a) or inside(b)):
                    eff.append({"pid": pid, "op": "rename", "src": a,
                                "dst": b})
                    if a in sizes:
                        sizes[b] = sizes.pop(a)
                    for st in fds.values():
                        if st["path"] == a:
                            st["path"] = b
                continue
            if name in ("unlink", "unlinkat", "rmdir"):
                mm = (RE_UNLINKAT if name == "unlinkat" else
                      RE_UNLINK).match(rest)
                if mm and int(mm.group(2)) == 0 and inside(upath(
                        mm.group(1))):
                    p = upath(mm.group(1))
                    eff.append({"pid": pid, "op": "unlink", "path": p})
                    sizes.pop(p, None)
                continue
            if name == "ftruncate":
                mm = RE_FTRUNC.match(rest)
                if mm and int(mm.group(4)) == 0:
                    st = fds.get((pid, int(mm.group(1))))
                    if st is not None:
                        eff.append({"pid": pid, "op": "truncate",
                                    "path": st["path"],
                                    "len": int(mm.group(3))})
                        sizes[st["path"]] = int(mm.group(3))
                continue
            if name == "truncate":
                mm = RE_TRUNC.match(rest)
                if mm and int(mm.group(3)) == 0 and inside(upath(
                        mm.group(1))):
                    eff.append({"pid": pid, "op": "truncate",
                                "path": upath(mm.group(1)),
                                "len": int(mm.group(2))})
                continue
            if name == "link":
                mm = RE_LINK.match(rest)
                if mm and int(mm.group(3)) == 0 and inside(upath(
                        mm.group(2))):
                    eff.append({"pid": pid, "op": "link",
                                "src": upath(mm.group(1)),
                                "dst": upath(mm.group(2))})
                continue
    return eff


# ---------------------------------------------------------------------------
# file-system model
# ---------------------------------------------------------------------------
class FS:

    def __init__(self) -> None:
        self.files: dict[str, bytearray] = {}
        self.dirs: set[str] = set()

    def apply(self, e: dict, cut: int | None = None) -> None:
        op = e["op"]
        if op == "mkdir":
            self.dirs.add(e["path"])
        elif op == "create":
            self.files.setdefault(e["path"], bytearray())
        elif op == "truncate":
            f = self.files.setdefault(e["path"], bytearray())
            if len(f) >= e["len"]:
                del f[e["len"]:]
            else:
                f.extend(b"\0" * (e["len"] - len(f)))
        elif op == "write":
            f = self.files.setdefault(e["path"], bytearray())
            data = e["data"] if cut is None else e["data"][:cut]
            off = e["off"]
            if len(f) < off:
                f.extend(b"\0" * (off - len(f)))
            f[off:off + len(data)] = data
        elif op == "rename":
            if e["src"] in self.files:
                self.files[e["dst"]] = self.files.pop(e["src"])
            elif e["src"] in self.dirs:
                self.dirs.discard(e["src"])
                self.dirs.add(e["dst"])
        elif op == "unlink":
            self.files.pop(e["path"], None)
            self.dirs.discard(e["path"])
        elif op == "link":
            if e["src"] in self.files:
                self.files[e["dst"]] = bytearray(self.files[e["src"]])

    def materialise(self, src_root: str, dst_root: Path) -> None:
        shutil.rmtree(dst_root, ignore_errors=True)
        dst_root.mkdir(parents=True)
        for d in sorted(self.dirs):
            if d.startswith(src_root):
                (dst_root / d[len(src_root):].lstrip("/")).mkdir(
                    parents=True, exist_ok=True)
        for p, data in self.files.items():
            if p.startswith(src_root):
                q = dst_root / p[len(src_root):].lstrip("/")
                q.parent.mkdir(parents=True, exist_ok=True)
                q.write_bytes(bytes(data))

    def tree(self, src_root: str) -> dict[str, bytes]:
        return {p[len(src_root):].lstrip("/"): bytes(d)
                for p, d in self.files.items() if p.startswith(src_root)}


# ---------------------------------------------------------------------------
# recording
# ---------------------------------------------------------------------------
def record(fmt: str, history: str, root: Path, log: Path) -> list[dict]:
    """Run the writer script under strace; returns the parsed effects."""
    env = dict(os.environ)
    env["PYTHONPATH"] = str(core.VERIF) + os.pathsep + env.get(
        "PYTHONPATH", "")
    cmd = ["strace", "-f", "-y", "-xx", "-s", "100000000", "-e",
           f"trace={TRACE}", "-o", str(log), sys.executable, "-m",
           "vf.crash_writer", fmt, history, str(root)]
    r = subprocess.run(cmd, env=env, capture_output=True, text=True,
                       cwd=str(core.VERIF), timeout=600)
    if r.returncode != 0:
        raise core.HarnessError(f"traced writer failed: {r.stderr[-1500:]}")
    return parse_trace(log, str(root))
