"""E2: cooperative scheduler + fakes for threading / queue / time.

The module under test is compiled from its source file and executed in a
namespace whose ``__import__`` hands out the fake modules below.  Exactly one
controlled thread runs at a time; every primitive operation is a scheduling
point whose enabledness is known to the scheduler, so deadlock is detected
exactly ("no enabled thread and somebody not finished").
"""
from __future__ import annotations

import builtins
import collections
import sys
import threading as _rt
import time as _rtime
import types
import warnings

from vf.explorer import Pruned, Divergence


class Abort(BaseException):
    """Unwinds a controlled thread when the execution is over."""


def _true() -> bool:
    return True


class TState:
    __slots__ = ("tid", "sem", "status", "op", "obj", "enabled", "sig",
                 "real", "exc", "fake", "aborts", "frame", "done_sem", "timed",
                 "consec")

    def __init__(self, tid: int) -> None:
        self.tid = tid
        self.sem = _rt.Semaphore(0)
        self.status = "ready"  # ready | done
        self.op = "begin"
        self.obj = None
        self.enabled = _true
        self.sig = ()
        self.frame = None
        self.done_sem = None
        self.real = None
        self.exc = None
        self.fake = None
        self.aborts = 0
        self.timed = False  # waiting with a time-out
        self.consec = 0  # consecutive time-outs of this thread (slow mode)


class Carrier:
    """A reusable OS thread (creating ~10^4 threads per process gets slow)."""
    idle: list = []

    def __init__(self) -> None:
        self.job_sem = _rt.Semaphore(0)
        self.job = None
        self.thread = _rt.Thread(target=self.loop, daemon=True)
        self.thread.start()

    def loop(self) -> None:
        while True:
            self.job_sem.acquire()
            fn, arg, done = self.job
            try:
                fn(arg)
            finally:
                self.job = None
                Carrier.idle.append(self)
                done.release()


# The scheduler currently in charge (one exploration per process at a time).
ACTIVE: "Scheduler | None" = None


class Scheduler:

    def __init__(self, chooser, watched_files=(), watched_mods=(),
                 observe=None, line_points=False, use_cache=True,
                 only_funcs=None, every_switch_costs=False,
                 workers_first=False, max_points=30000,
                 timeouts_first=0) -> None:
        self.chooser = chooser
        # base schedule "slow partners": a wait with a time-out expires up to
        # `timeouts_first` times in a row before the thread waited for runs
        self.timeouts_first = timeouts_first
        self.max_points = max_points
        self.horizon = False
        self.workers_first = workers_first
        self.every_switch_costs = every_switch_costs
        self.only_funcs = only_funcs
        self.watched_files = set(watched_files)
        self.watched_mods = set(watched_mods)
        self.observe = observe or (lambda: ())
        self.line_points = line_points
        self.use_cache = use_cache
        self.threads: list[TState] = []
        self.by_ident: dict[int, TState] = {}
        self.queues: list = []
        self.abort = False
        self.deadlock = False
        self.pruned = False
        self.divergence: str | None = None
        self.blocked_at_end: list[tuple] = []
        self.end_sem = _rt.Semaphore(0)
        self.trace: list[int] = []  # tids in execution order (for samples)
        self.points = 0
        self.max_live = 0

    # -- thread registry ---------------------------------------------------
    def me(self) -> TState:
        return self.by_ident[_rt.get_ident()]

    def adopt_main(self) -> TState:
        ts = TState(0)
        ts.real = _rt.current_thread()
        self.threads.append(ts)
        self.by_ident[_rt.get_ident()] = ts
        return ts

    def spawn(self, fake) -> None:
        ts = TState(len(self.threads))
        ts.fake = fake
        fake._ts = ts
        self.threads.append(ts)
        live = sum(1 for t in self.threads if t.status != "done")
        self.max_live = max(self.max_live, live)
        carrier = Carrier.idle.pop() if Carrier.idle else Carrier()
        ts.real = carrier
        ts.done_sem = _rt.Semaphore(0)
        self.by_ident[carrier.thread.ident] = ts
        carrier.job = (self._bootstrap, ts, ts.done_sem)
        carrier.job_sem.release()

    def _bootstrap(self, ts: TState) -> None:
        ts.sem.acquire()
        try:
            if self.abort:
                raise Abort()
            if self.line_points:
                sys.settrace(self._global_trace)
            try:
                ts.fake.run()
            finally:
                sys.settrace(None)
        except Abort:
            pass
        except (Pruned, Divergence):
            pass
        except BaseException as exc:  # what threading does: the thread dies
            ts.exc = exc
        ts.status = "done"
        if not self.abort:
            try:
                self._reschedule(ts)
            except Abort:
                pass

    # -- line granularity --------------------------------------------------
    def _global_trace(self, frame, event, arg):
        code = frame.f_code
        if code.co_filename in self.watched_files and (
                self.only_funcs is None or
                code.co_filename not in self.only_funcs or
                code.co_name in self.only_funcs[code.co_filename]):
            return self._local_trace
        return None

    def _local_trace(self, frame, event, arg):
        if event == "line" and not self.abort:
            self.point("line", None, None)
        return self._local_trace

    # -- the scheduling point ---------------------------------------------
    def timed_wait(self, op: str, obj, pred) -> bool:
        """A wait with a time-out.  Time is not modelled: the wait succeeds
        when ``pred`` holds at the moment the thread is scheduled; the
        time-out may expire instead whenever the scheduler says so - at no
        cost when nothing else can run (time passes), as a deviation
        otherwise (the threads waited for are slower than the time-out).
        Returns False when it expired."""
        self.point(op, obj, pred, timed=True)
        me = self.me()
        me.timed = False
        if pred():
            me.consec = 0
            return True
        return False

    def point(self, op: str, obj, enabled, timed: bool = False) -> None:
        if self.abort:
            me = self.by_ident.get(_rt.get_ident())
            if me is not None:
                me.aborts += 1
                if me.aborts > 200:
                    # somebody swallows BaseException in a loop
                    raise SystemExit("abort swallowed")
            raise Abort()
        me = self.me()
        me.op = op
        me.obj = obj
        me.enabled = enabled or _true
        me.timed = timed
        if self.use_cache:
            # signature is computed lazily (only when a state key is needed)
            me.frame = sys._getframe(1)
            me.sig = None
        self.points += 1
        if self.points > self.max_points:
            # explicit horizon: an execution that never goes quiescent
            # (unbounded feeding, polling, livelock) is cut off and reported
            self.horizon = True
            self._abort_all(me)
            raise Abort()
        self._reschedule(me)

    def _reschedule(self, me: TState) -> None:
        threads = self.threads
        enabled = []
        if self.workers_first:
            # base schedule "eager workers": the consumer (thread 0) only
            # runs when no other thread can
            for t in threads[1:]:
                if t.status != "done" and t.enabled():
                    enabled.append(t)
            t = threads[0]
            if t.status != "done" and t.enabled():
                enabled.append(t)
        else:
            if me.status != "done" and me.enabled():
                enabled.append(me)
            for t in threads:
                if t is not me and t.status != "done" and t.enabled():
                    enabled.append(t)
        nready = len(enabled)
        expiring = [t for t in threads
                    if t.status != "done" and t.timed and not t.enabled()]
        front = []
        if expiring:
            if self.timeouts_first:
                front = [t for t in expiring if t.consec < self.timeouts_first]
                expiring = [t for t in expiring if t not in front]
            enabled = front + enabled + expiring
        if not enabled:
            stuck = [t for t in threads if t.status != "done"]
            self.deadlock = bool(stuck)
            self.blocked_at_end = [(t.tid, t.op) for t in stuck]
            self._abort_all(me)
            if me.status != "done":
                raise Abort()
            return
        n = len(enabled)
        preempt = 1 if (enabled[0] is me or self.every_switch_costs) else 0
        if front or nready < n:
            # an expiring time-out that is not the default costs one
            # deviation; with time-outs in front (slow partners) letting a
            # ready thread run instead is the deviation
            costs = ([1] * len(front) +
                     [1 if front else preempt] * nready +
                     [1] * (n - nready - len(front)))
            costs[0] = 0
        else:
            costs = [0] + [preempt] * (n - 1)
        try:
            key = None
            if self.use_cache and self.chooser.beyond_prefix():
                key = self._state_key(me)
            idx = self.chooser.choose(n, key=key, costs=costs)
        except Pruned:
            self.pruned = True
            self._abort_all(me)
            if me.status != "done":
                raise Abort() from None
            return
        except Divergence as d:
            self.divergence = str(d)
            self._abort_all(me)
            if me.status != "done":
                raise Abort() from None
            return
        nxt = enabled[idx]
        if nxt.timed and not nxt.enabled():
            nxt.consec += 1  # its time-out expires
        self.trace.append(nxt.tid)
        if nxt is me:
            return
        nxt.sem.release()
        if me.status != "done":
            me.sem.acquire()
            if self.abort:
                raise Abort()

    def _abort_all(self, me: TState) -> None:
        self.abort = True
        for t in self.threads:
            if t is not me and t.status != "done":
                t.sem.release()
        self.end_sem.release()

    # -- state key ---------------------------------------------------------
    def _state_key(self, me: TState):
        tsigs = []
        main_sig = None
        for t in self.threads:
            if t.status == "done":
                s = ("done", type(t.exc).__name__ if t.exc else None)
            else:
                oid = getattr(t.obj, "_vid", None)
                if t.sig is None:
                    t.sig = self._stack_sig(t.frame)
                s = (t.op, oid, t.sig) if not self.timeouts_first else (
                    t.op, oid, t.sig, t.consec)
            if t.tid == 0:
                main_sig = s
            else:
                tsigs.append(s)
        tsigs.sort(key=repr)
        qs = tuple(
            (q._vid, tuple(vsig(x, self.watched_mods, 2) for x in q._items()))
            for q in self.queues)
        if me.status != "done" and me.sig is None:
            me.sig = self._stack_sig(me.frame)
        if getattr(self.chooser, "bounded", True):
            cur = 0 if me.tid == 0 else ("w", (me.op, getattr(
                me.obj, "_vid", None), me.sig) if me.status != "done" else
                                         "done")
        else:
            # complete search: successors do not depend on who ran last
            cur = None
        return hash((main_sig, tuple(tsigs), qs, self.observe(), repr(cur)))

    def _stack_sig(self, frame) -> tuple:
        out = []
        depth = 0
        wf = self.watched_files
        wm = self.watched_mods
        while frame is not None and depth < 12:
            code = frame.f_code
            if code.co_filename in wf and (
                    self.only_funcs is None or
                    code.co_filename not in self.only_funcs or
                    code.co_name in self.only_funcs[code.co_filename]):
                loc = frame.f_locals
                items = []
                for k in sorted(loc):
                    items.append((k, vsig(loc[k], wm, 2)))
                out.append((code.co_name, frame.f_lasti, tuple(items)))
            frame = frame.f_back
            depth += 1
        return tuple(out)

    # -- running -----------------------------------------------------------
    def run_main(self, fn):
        """Run ``fn`` as controlled thread 0 in the calling thread; afterwards
        let the remaining threads run until nothing is enabled.  Returns
        (result, exception)."""
        global ACTIVE
        ACTIVE = self
        me = self.adopt_main()
        result = exc = None
        try:
            if self.line_points:
                sys.settrace(self._global_trace)
            try:
                result = fn()
            finally:
                sys.settrace(None)
        except Abort:
            pass
        except (Pruned, Divergence) as e:  # raised in our own frames
            self.pruned = isinstance(e, Pruned)
        except BaseException as e:
            exc = e
        me.status = "done"
        if not self.abort:
            try:
                self._reschedule(me)
            except Abort:
                pass
            if not self.abort:
                self.end_sem.acquire()
        for t in self.threads[1:]:
            if not t.done_sem.acquire(timeout=20):
                raise RuntimeError("controlled thread did not unwind")
        ACTIVE = None
        return result, exc


# ---------------------------------------------------------------------------
# value signatures for the state key
# ---------------------------------------------------------------------------
_SIMPLE = (int, str, bool, float, bytes, type(None))


def vsig(v, mods, depth):
    if isinstance(v, _SIMPLE):
        return v
    vid = getattr(v, "_vid", None)
    if vid is not None:
        return vid
    if depth <= 0:
        return type(v).__name__
    t = type(v)
    if t in (list, tuple, collections.deque):
        return (t.__name__,) + tuple(vsig(x, mods, depth - 1) for x in v[:64])
    if t is dict:
        return ("dict",) + tuple(
            sorted((repr(k), repr(vsig(x, mods, depth - 1)))
                   for k, x in v.items()))
    if isinstance(v, FakeThread):
        return "T"
    if isinstance(v, BaseException):
        return ("exc", t.__name__)
    if t is types.GeneratorType:
        fr = v.gi_frame
        if fr is None:
            return ("gen", v.gi_code.co_name, "finished")
        if v.gi_running:
            return ("gen", v.gi_code.co_name, "running")
        return ("gen", v.gi_code.co_name, fr.f_lasti) + tuple(
            (k, vsig(x, mods, depth - 1))
            for k, x in sorted(fr.f_locals.items()))
    if t.__module__ in mods:
        try:
            d = vars(v)
        except TypeError:
            return t.__name__
        return (t.__name__,) + tuple((k, vsig(x, mods, depth - 1))
                                     for k, x in sorted(d.items())
                                     if not k.startswith("x_"))
    if t.__module__ in ("builtins", "itertools") and hasattr(v, "__next__"):
        try:
            with warnings.catch_warnings():
                warnings.simplefilter("ignore")
                r = v.__reduce__()
            return (t.__name__,) + tuple(
                vsig(x, mods, depth - 1) for x in r[1:])
        except Exception:  # pylint: disable=broad-except
            return t.__name__
    if callable(v):
        return ("fn", getattr(v, "__name__", t.__name__))
    return t.__name__


# ---------------------------------------------------------------------------
# fakes
# ---------------------------------------------------------------------------
class Empty(Exception):
    pass


class Full(Exception):
    pass


class ShutDown(Exception):
    pass


def _sched() -> Scheduler:
    s = ACTIVE
    if s is None:
        raise RuntimeError("fake primitive used outside a controlled run")
    return s


class FakeQueue:
    """FIFO queue; LIFO / priority variants below."""

    def __init__(self, maxsize: int = 0) -> None:
        self.maxsize = maxsize
        self.queue = collections.deque()
        self.unfinished_tasks = 0
        s = _sched()
        self._vid = ("Q", len(s.queues))
        s.queues.append(self)

    def __class_getitem__(cls, item):
        return cls

    def _items(self):
        return list(self.queue)

    def _put(self, item):
        self.queue.append(item)

    def _get(self):
        return self.queue.popleft()

    def _full(self) -> bool:
        return 0 < self.maxsize <= len(self.queue)

    def qsize(self) -> int:
        _sched().point("qsize", self, None)
        return len(self.queue)

    def empty(self) -> bool:
        _sched().point("empty", self, None)
        return not self.queue

    def full(self) -> bool:
        _sched().point("full", self, None)
        return self._full()

    def put(self, item, block: bool = True, timeout=None) -> None:
        s = _sched()
        if block and timeout is not None and timeout > 0:
            if not s.timed_wait("put_t", self, lambda: not self._full()):
                raise Full()
        elif not block or timeout is not None:
            s.point("put_nb", self, None)
            if self._full():
                raise Full()
        else:
            s.point("put", self, lambda: not self._full())
        self._put(item)
        self.unfinished_tasks += 1

    def put_nowait(self, item) -> None:
        self.put(item, block=False)

    def get(self, block: bool = True, timeout=None):
        s = _sched()
        if block and timeout is not None and timeout > 0:
            if not s.timed_wait("get_t", self, lambda: bool(self.queue)):
                raise Empty()
        elif not block or timeout is not None:
            s.point("get_nb", self, None)
            if not self.queue:
                raise Empty()
        else:
            s.point("get", self, lambda: bool(self.queue))
        return self._get()

    def get_nowait(self):
        return self.get(block=False)

    def task_done(self) -> None:
        _sched().point("task_done", self, None)
        if self.unfinished_tasks <= 0:
            raise ValueError("task_done() called too many times")
        self.unfinished_tasks -= 1

    def join(self) -> None:
        _sched().point("qjoin", self, lambda: self.unfinished_tasks == 0)


class FakeLifoQueue(FakeQueue):

    def _get(self):
        return self.queue.pop()


class FakeSimpleQueue(FakeQueue):

    def __init__(self) -> None:
        super().__init__(0)


class FakeLock:

    def __init__(self) -> None:
        self._owner = None
        self._count = 0
        s = _sched()
        self._vid = ("L", len(s.queues))
        s.queues.append(self)
        self._reentrant = False

    def _items(self):
        return [None if self._owner is None else self._owner.tid, self._count]

    def acquire(self, blocking: bool = True, timeout: float = -1) -> bool:
        s = _sched()
        me = s.me()
        if self._reentrant and self._owner is me:
            self._count += 1
            return True
        if blocking and timeout is not None and timeout > 0:
            if not s.timed_wait("acq_t", self, lambda: self._owner is None):
                return False
        elif not blocking or (timeout is not None and timeout >= 0):
            s.point("acq_nb", self, None)
            if self._owner is not None:
                return False
        else:
            s.point("acquire", self, lambda: self._owner is None)
        self._owner = me
        self._count = 1
        return True

    def release(self) -> None:
        if self._owner is None:
            raise RuntimeError("release unlocked lock")
        if self._reentrant and self._count > 1:
            self._count -= 1
            return
        self._owner = None
        self._count = 0
        _sched().point("release", self, None)

    def locked(self) -> bool:
        return self._owner is not None

    __enter__ = acquire

    def __exit__(self, *a) -> None:
        self.release()


class FakeRLock(FakeLock):

    def __init__(self) -> None:
        super().__init__()
        self._reentrant = True


class FakeEvent:

    def __init__(self) -> None:
        self._flag = False
        s = _sched()
        self._vid = ("E", len(s.queues))
        s.queues.append(self)

    def _items(self):
        return [self._flag]

    def is_set(self) -> bool:
        _sched().point("is_set", self, None)
        return self._flag

    def set(self) -> None:
        _sched().point("set", self, None)
        self._flag = True

    def clear(self) -> None:
        _sched().point("clear", self, None)
        self._flag = False

    def wait(self, timeout=None) -> bool:
        if timeout is not None and timeout > 0:
            return _sched().timed_wait("wait_t", self, lambda: self._flag)
        if timeout is not None:
            _sched().point("wait_nb", self, None)
            return self._flag
        _sched().point("wait", self, lambda: self._flag)
        return True


class FakeSemaphore:

    def __init__(self, value: int = 1) -> None:
        self._value = value
        s = _sched()
        self._vid = ("S", len(s.queues))
        s.queues.append(self)

    def _items(self):
        return [self._value]

    def acquire(self, blocking: bool = True, timeout=None) -> bool:
        s = _sched()
        if blocking and timeout is not None and timeout > 0:
            if not s.timed_wait("sacq_t", self, lambda: self._value > 0):
                return False
        elif not blocking or timeout is not None:
            s.point("sacq_nb", self, None)
            if self._value <= 0:
                return False
        else:
            s.point("sacq", self, lambda: self._value > 0)
        self._value -= 1
        return True

    def release(self, n: int = 1) -> None:
        self._value += n
        _sched().point("srel", self, None)

    __enter__ = acquire

    def __exit__(self, *a) -> None:
        self.release()


class FakeCondition:

    def __init__(self, lock=None) -> None:
        self._lock = lock or FakeRLock()
        self._waiters: list = []
        s = _sched()
        self._vid = ("C", len(s.queues))
        s.queues.append(self)
        self.acquire = self._lock.acquire
        self.release = self._lock.release

    def _items(self):
        return [len(self._waiters)]

    def __enter__(self):
        return self._lock.__enter__()

    def __exit__(self, *a):
        return self._lock.__exit__(*a)

    def wait(self, timeout=None) -> bool:
        s = _sched()
        token = [False]
        self._waiters.append(token)
        saved = self._lock._count
        self._lock._owner = None
        self._lock._count = 0
        if timeout is not None and timeout > 0:
            s.timed_wait("cwait_t", self, lambda: token[0])
        elif timeout is not None:
            s.point("cwait_nb", self, None)
        else:
            s.point("cwait", self, lambda: token[0])
        if token in self._waiters:
            self._waiters.remove(token)
        s.point("creacq", self._lock, lambda: self._lock._owner is None)
        self._lock._owner = s.me()
        self._lock._count = saved
        return token[0]

    def wait_for(self, predicate, timeout=None):
        r = predicate()
        while not r:
            self.wait(timeout)
            r = predicate()
            if timeout is not None:
                break
        return r

    def notify(self, n: int = 1) -> None:
        for token in self._waiters[:n]:
            token[0] = True
        del self._waiters[:n]

    def notify_all(self) -> None:
        self.notify(len(self._waiters))


class FakeThread:
    _vid = None

    def __init__(self, group=None, target=None, name=None, args=(),
                 kwargs=None, *, daemon=None) -> None:
        self._target = target
        self._args = args
        self._kwargs = kwargs or {}
        self.name = name or "Thread"
        self.daemon = bool(daemon)
        self._ts: TState | None = None

    def start(self) -> None:
        if self._ts is not None:
            raise RuntimeError("threads can only be started once")
        s = _sched()
        s.point("start", None, None)
        s.spawn(self)

    def run(self) -> None:
        if self._target is not None:
            self._target(*self._args, **self._kwargs)

    def join(self, timeout=None) -> None:
        ts = self._ts
        if ts is None:
            raise RuntimeError("cannot join thread before it is started")
        if timeout is not None and timeout > 0:
            _sched().timed_wait("join_t", None, lambda: ts.status == "done")
        elif timeout is not None:
            _sched().point("join_nb", None, None)
        else:
            _sched().point("join", None, lambda: ts.status == "done")

    def is_alive(self) -> bool:
        _sched().point("is_alive", None, None)
        return self._ts is not None and self._ts.status != "done"

    @property
    def ident(self):
        return None if self._ts is None else self._ts.tid


def fake_modules() -> dict[str, types.ModuleType]:
    th = types.ModuleType("threading")
    th.Thread = FakeThread
    th.Lock = FakeLock
    th.RLock = FakeRLock
    th.Event = FakeEvent
    th.Condition = FakeCondition
    th.Semaphore = FakeSemaphore
    th.BoundedSemaphore = FakeSemaphore
    th.current_thread = lambda: _sched().me().fake
    th.get_ident = lambda: _sched().me().tid
    th.active_count = lambda: sum(1 for t in _sched().threads
                                  if t.status != "done")
    qm = types.ModuleType("queue")
    qm.Queue = FakeQueue
    qm.LifoQueue = FakeLifoQueue
    qm.SimpleQueue = FakeSimpleQueue
    qm.Empty = Empty
    qm.Full = Full
    tm = types.ModuleType("time")
    for k in dir(_rtime):
        if not k.startswith("__"):
            setattr(tm, k, getattr(_rtime, k))
    tm.sleep = lambda secs=0: _sched().point("sleep", None, None)
    return {"threading": th, "queue": qm, "time": tm}


def load_controlled(path: str, modname: str) -> types.ModuleType:
    """Compile ``path`` and run it with threading/queue/time replaced."""
    fakes = fake_modules()
    real_import = builtins.__import__

    def imp(name, globals=None, locals=None, fromlist=(), level=0):
        if level == 0 and name in fakes:
            return fakes[name]
        return real_import(name, globals, locals, fromlist, level)

    b = dict(vars(builtins))
    b["__import__"] = imp
    mod = types.ModuleType(modname)
    mod.__file__ = path
    mod.__dict__["__builtins__"] = b
    with open(path, encoding="utf-8") as f:
        src = f.read()
    exec(compile(src, path, "exec"), mod.__dict__)  # pylint: disable=exec-used
    mod._vf_fakes = fakes
    return mod
