"""E5 (Rust): completion-order exploration of the real parallel_map.rs.

The harness binary (/verif/rs/pmap_mc, includes /repo/rust/src/parallel_map.rs
by path) runs one execution per process under a prefix of choices: whenever
all threads are quiescent the controller releases one of the items whose
mapped function is blocked in the gate.  The DFS over prefixes is driven here.
"""
from __future__ import annotations

import json
import subprocess
import time

from vf.explorer import Explorer, Divergence
from vf import rustbuild


def run_bin(cfg: dict, prefix: list[int]) -> dict:
    args = [str(rustbuild.PMAP_BIN), str(cfg["n"]), str(cfg["T"]),
            str(cfg.get("d", -1)), str(cfg.get("p", -1)),
            ",".join(map(str, prefix))]
    import os
    env = dict(os.environ)
    if cfg.get("hold"):
        # base schedule "slow partners": every release is held back so that
        # waits with a shorter time-out in the code under test expire first
        env["PMAP_HOLD_MS"] = str(cfg["hold"])
    for attempt in range(3):
        r = subprocess.run(args, capture_output=True, text=True, timeout=300,
                           env=env)
        line = r.stdout.strip().splitlines()[-1] if r.stdout.strip() else ""
        try:
            out = json.loads(line)
        except ValueError:
            out = {"crash": f"rc={r.returncode} {r.stderr[-300:]}"}
        if not out.get("timeout") and not out.get("divergence"):
            return out
        time.sleep(0.05 * (attempt + 1))  # quiescence misjudged under load
    return out


def judge(cfg: dict, out: dict) -> list[tuple[str, str, str]]:
    """[(property, symptom, message)]"""
    n, T = cfg["n"], cfg["T"]
    d, p = cfg.get("d", -1), cfg.get("p", -1)
    desc = f"parallel_map n={n} threads={T}" + (
        f" drop after {d}" if d >= 0 else "") + (
            f" item {p} panics" if p >= 0 else "")
    bad = []
    if out.get("crash"):
        return [("HARNESS", "crash", f"{desc}: {out['crash']}")]
    if out["deadlock"]:
        bad.append(("C15", "deadlock",
                    f"{desc}: deadlock (consumer blocked, nothing in "
                    f"flight)"))
        return bad
    if out["timeout"]:
        return [("HARNESS", "timeout", f"{desc}: never quiescent")]
    if out["divergence"]:
        return [("HARNESS", "divergence", f"{desc}: replay diverged")]
    want = [100 + i for i in range(n)]
    got = out["out"]
    if p >= 0 and (d < 0 or p < d + T):
        # a failing item: the consumer must not see a normal end of a
        # truncated stream (C07); results so far must be a prefix
        if out["consumer_panicked"]:
            pass
        elif got is not None:
            if got != want[:len(got)]:
                bad.append(("C15", "order", f"{desc}: outputs {got}"))
            if out["ended"] and len(got) < n and d < 0:
                bad.append(("C07", "silent-truncation",
                            f"{desc}: the map ended normally after "
                            f"{len(got)} of {n} results"))
    else:
        if out["consumer_panicked"]:
            bad.append(("C15", "panic", f"{desc}: consumer panicked"))
        elif d >= 0:
            if got != want[:min(d, n)]:
                bad.append(("C15", "order",
                            f"{desc}: outputs {got} expected "
                            f"{want[:min(d, n)]}"))
        elif got != want or not out["ended"]:
            bad.append(("C15", "order",
                        f"{desc}: outputs {got} expected {want}"))
    if out["leftover_threads"]:
        bad.append(("C15", "thread-leak",
                    f"{desc}: {out['leftover_threads']} threads still alive "
                    f"after the map was dropped"))
    ngot = len(got) if got is not None else 0
    if out["max_ahead"] > T + 1 + 4:
        bad.append(("C14", "read-ahead",
                    f"{desc}: source is {out['max_ahead']} items ahead of "
                    f"the consumer (threads={T})"))
    if out["pulls"] > ngot + T + 1 + (1 if d < 0 else 0):
        bad.append(("C14", "pulls",
                    f"{desc}: {out['pulls']} pulls for {ngot} outputs"))
    return bad


def explore_config(cfg: dict) -> dict:
    t0 = time.time()
    viol: list = []
    harness: list[str] = []
    outcomes = set()
    samples = []
    mx = {"ahead": 0, "threads": 0}

    def run(ch):
        # the binary needs the whole prefix up front; the chooser is only
        # used to record the alternatives it reports
        out = run_bin(cfg, list(ch.prefix))
        if out.get("crash") or out.get("timeout") or out.get("divergence"):
            return out
        for c, n in zip(out["choices"], out["ns"]):
            got = ch.choose(n)
            if got != c:
                raise Divergence(f"{cfg}: binary chose {c}, explorer {got}")
        return out

    def on_result(choices, out):
        outcomes.add(json.dumps(out.get("out")))
        mx["ahead"] = max(mx["ahead"], out.get("max_ahead", 0))
        mx["threads"] = max(mx["threads"], out.get("max_threads", 0))
        if not samples:
            samples.append({"choices": choices, "out": out.get("out")})
        for prop, sym, msg in judge(cfg, out):
            if prop == "HARNESS":
                harness.append(msg)
            elif len(viol) < 4:
                again = judge(cfg, run_bin(cfg, choices))
                if (prop, sym, msg) in again:
                    viol.append({"choices": choices, "prop": prop,
                                 "sym": sym, "msg": msg})
                else:
                    harness.append(f"NONDETERMINISM {cfg} {choices}: {msg}")

    ex = Explorer(run, bound=cfg.get("bound"), cache=False,
                  max_executions=cfg.get("max_exec", 20000),
                  record_forced=True)
    try:
        ex.explore(on_result)
    except Divergence as e:
        harness.append(f"DIVERGENCE {e}")
    st = ex.stats()
    st.update(cfg=cfg, violations=viol, harness=harness,
              distinct_outputs=len(outcomes), samples=samples,
              max_ahead=mx["ahead"], max_threads=mx["threads"],
              wall_s=round(time.time() - t0, 2))
    return st


def replay_case(cfg: dict, choices: list[int]) -> list[str]:
    rustbuild.ensure_pmap()
    return [m for p, s, m in judge(cfg, run_bin(cfg, choices))
            if p != "HARNESS"]
