"""MANIFEST.setup_cmd: build what can be built ahead of the checks (offline).

Everything here is also rebuilt on demand by the checks themselves, so a
failure of an optional step is reported but not fatal.
"""
import sys


def main() -> int:
    import vf.core  # noqa: F401
    import vf.sched  # noqa: F401
    try:
        from vf import rustbuild
        rustbuild.ensure_all(verbose=True)
    except ImportError:
        pass
    except Exception as e:  # pylint: disable=broad-except
        print("setup: optional rust build failed:", e)
    print("setup ok")
    return 0


if __name__ == "__main__":
    sys.exit(main())
