"""C08: continued writing is append-only (E1)."""
from vf import opseq

TAGS = {"C08"}


def plans(tier):
    A = opseq.alphabet
    create = [("create", "none", 0), ("create", "none", 1)]
    if tier == "thorough":
        return [
            dict(fmt="fb", eps=2, letters=A(opseq.KINDS_T) + create, depth=3),
            dict(fmt="fb", eps=2, letters=A(("root", "x", "x/y", "multi"),
                                            ("train", "test")) + create,
                 depth=4),
            dict(fmt="npz", eps=2, letters=A(opseq.KINDS_Q) + create, depth=2),
            dict(fmt="tfrec", eps=2, letters=A(opseq.KINDS_Q) + create,
                 depth=2),
            dict(fmt="fb/nohash+reads", eps=2, letters=A(opseq.KINDS_Q),
                 depth=3),
            dict(fmt="npz/2hash+reads", eps=2, letters=A(opseq.KINDS_Q),
                 depth=2),
            dict(fmt="tfrec/nohash+reads", eps=1, letters=A(opseq.KINDS_Q),
                 depth=2),
        ]
    return [
        dict(fmt="fb", eps=2, letters=A(opseq.KINDS_Q) + create, depth=3),
        dict(fmt="npz", eps=1, letters=A(("root", "x", "x/y", "multi3"),
                                         ("mix", "holdout")) + create,
             depth=2),
        dict(fmt="tfrec", eps=2, letters=A(("root", "x", "multi"),
                                           ("train",)) + create, depth=2),
        # sessions that write nothing, idle writers, untouched splits
        dict(fmt="fb", eps=2, letters=A(("root", "x", "multi3", "empty"),
                                        ("train", "test")), depth=3),
        # no checksum algorithms / two of them; the dataset is opened,
        # checked and iterated in the writing process after every session
        dict(fmt="fb/nohash+reads", eps=2,
             letters=A(("root", "x", "x/y", "multi"), ("train", "mix")),
             depth=3),
        dict(fmt="npz/2hash+reads", eps=2,
             letters=A(("root", "x", "multi"), ("mix",)), depth=2),
    ]


def run(ctx):
    opseq.run_bfs_check(ctx, TAGS, plans(ctx.tier))
    opseq.run_explicit(ctx, TAGS, opseq.long_histories())
    ctx.cov["explanation"] = (
        "BFS over histories of completed writing sessions (root / new / "
        "reused / nested sub-directory filler, multi-writer call, refused "
        "Dataset.create; kept or reopened handle) on real dataset "
        "directories; after every history the decoded content of every "
        "split is compared with the reference model (multiset before + "
        "written), and every session must complete without an exception")
    ctx.assumptions[:] = [
        "one live handle at a time; sessions complete (crashes are C06)",
        "state canonicalisation drops uuid names, timestamps and payload "
        "ids: the code never branches on them",
        "small scope: depth <= 3 (quick) over a 40-letter alphabet",
    ]


def replay(case):
    return opseq.replay_history(case, TAGS)
