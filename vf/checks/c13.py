"""C13: the lazy thread pool under every interleaving (E2, flagship).

Configurations are explored one per core.  ``bound=None`` means the search is
complete (every reachable state expanded once); otherwise the preemption
bound that was completed is reported.
"""
from __future__ import annotations

from vf import core
from vf.lazypool_mc import explore_config, replay_case


def configs(tier: str) -> list[dict]:
    c: list[dict] = []
    thorough = tier == "thorough"
    # -- full pass -----------------------------------------------------
    full_complete = {1: range(0, 9), 2: range(0, 6), 3: range(0, 3)}
    if thorough:
        full_complete = {1: range(0, 12), 2: range(0, 9), 3: range(0, 5)}
    for T, ns in full_complete.items():
        for n in ns:
            c.append(dict(variant="full", T=T, n=n))
    if thorough:
        for T in (2, 3):
            for n in range(max(full_complete[T]) + 1, 2 * T + 5):
                c.append(dict(variant="full", T=T, n=n, bound=3))
        c.append(dict(variant="full", T=4, n=5, bound=2))
        c.append(dict(variant="full", T=4, n=12, bound=2))
    else:
        for T, n, b in ((2, 6, 2), (2, 8, 2), (3, 3, 2), (3, 5, 2), (3, 8, 1),
                        (3, 10, 1)):
            c.append(dict(variant="full", T=T, n=n, bound=b))
    b = 3 if thorough else 2
    # -- early exit (workers must terminate) --------------------------
    for T, nmax in ((1, 4), (2, 3 if not thorough else 5)):
        for n in range(1, nmax + 1):
            for k in range(1, n + 1):
                c.append(dict(variant="early", T=T, n=n, k=k))
    c.append(dict(variant="early", T=3, n=4, k=2, bound=b))
    c.append(dict(variant="early", T=2, n=7, k=3, bound=b))
    # -- infinite source ----------------------------------------------
    for T in (1, 2):
        for k in (1, 2 * T + 3):
            c.append(dict(variant="early", T=T, n=None, k=k,
                          bound=None if T == 1 else b))
    # -- failing mapped function --------------------------------------
    # (n below, at and above 2T+2: whether sentinels are already in flight
    # when the failure is handled depends on it)
    for T, nmax in ((1, 6 if not thorough else 8), (2, 4 if not thorough else 6)):
        for n in range(1, nmax + 1):
            for p in range(n):
                c.append(dict(variant="fail", T=T, n=n, p=p))
    for n in (6, 7, 8):
        for p in sorted({0, 2, n - 1}):
            if not (thorough and n <= 6):
                c.append(dict(variant="fail", T=2, n=n, p=p,
                              bound=None if thorough else 2))
    for n, p in ((4, 1), (8, 0), (8, 5), (10, 1)):
        c.append(dict(variant="fail", T=3, n=n, p=p, bound=b))
    # -- the INPUT iterable raises (position below, at, above 2T+2) -----
    for T, sps in ((1, (0, 1, 3, 4, 6)), (2, (0, 1, 2, 5, 6, 8))):
        for sp in sps:
            c.append(dict(variant="srcfail", T=T, n=sp + 3, sp=sp,
                          bound=None if T == 1 else b))
    c.append(dict(variant="srcfail", T=3, n=6, sp=2, bound=1))
    c.append(dict(variant="srcfail", T=3, n=12, sp=9, bound=1))
    # two failing inputs are not needed: the first failure ends the pass
    # -- early exit, then a second complete pass on the same pool ----
    c.append(dict(variant="reuse", T=1, n=2, k=1, n2=2))
    c.append(dict(variant="reuse", T=1, n=4, k=2, n2=1))
    c.append(dict(variant="reuse", T=2, n=2, k=1, n2=2, bound=2))
    if thorough:
        c.append(dict(variant="reuse", T=2, n=2, k=1, n2=1))
        c.append(dict(variant="reuse", T=2, n=3, k=2, n2=2))
        c.append(dict(variant="reuse", T=2, n=6, k=2, n2=3, bound=2))
        c.append(dict(variant="reuse", T=3, n=3, k=1, n2=4, bound=2))
    else:
        c.append(dict(variant="reuse", T=2, n=6, k=2, n2=3, bound=1))
        c.append(dict(variant="reuse", T=3, n=3, k=1, n2=2, bound=1))
    # -- other base schedules: eager workers (the consumer only runs when
    # no worker can); slow partners (a wait with a time-out expires K times
    # in a row before the thread waited for runs) ------------------------
    for extra in (dict(workers_first=True), dict(slow=5)):
        bb = 2 if thorough else 1
        c.append(dict(variant="full", T=2, n=7, bound=bb, **extra))
        c.append(dict(variant="full", T=3, n=9, bound=1, **extra))
        c.append(dict(variant="early", T=2, n=7, k=3, bound=bb, **extra))
        c.append(dict(variant="fail", T=2, n=7, p=2, bound=bb, **extra))
        c.append(dict(variant="fail", T=2, n=7, p=6, bound=bb, **extra))
        c.append(dict(variant="reuse", T=2, n=6, k=2, n2=3, bound=1, **extra))
    # -- line granularity (race detector substitute; stateless) -------
    lb = 2 if thorough else 1
    c.append(dict(variant="full", T=2, n=2, lines=True, bound=lb, cache=False))
    c.append(dict(variant="early", T=2, n=2, k=1, lines=True, bound=lb,
                  cache=False))
    c.append(dict(variant="reuse", T=1, n=1, k=1, n2=1, lines=True, bound=lb,
                  cache=False))
    c.append(dict(variant="fail", T=2, n=2, p=0, lines=True, bound=lb,
                  cache=False))
    # reuse with a worker of the abandoned first pass still between taking
    # its input and delivering the result when the second pass starts
    for n_, k_, n2_ in ((2, 1, 1), (3, 1, 2), (4, 2, 2)):
        c.append(dict(variant="reuse", T=1, n=n_, k=k_, n2=n2_, lines=True,
                      bound=lb, cache=False))
    # -- cached vs uncached guard -------------------------------------
    c.append(dict(variant="full", T=1, n=2, cache=False, guard="full-1-2"))
    c.append(dict(variant="early", T=1, n=2, k=1, cache=False,
                  guard="early-1-2-1"))
    return c


def weight(cfg: dict) -> float:
    n = cfg["n"] if cfg["n"] is not None else 6
    w = (n + 2)**(cfg["T"]) * (3 if cfg.get("bound") is None else 1)
    if cfg["variant"] == "reuse":
        w *= 20
    if cfg.get("lines"):
        w *= 10 if cfg.get("bound", 1) < 2 else 1000
    if cfg.get("guard"):
        w *= 50
    return w


def sig_of(cfg: dict, what: str) -> dict:
    kind = "deadlock" if "deadlock" in what else (
        "leak" if "never terminate" in what else "wrong-result")
    return {"engine": "sched", "variant": cfg["variant"], "symptom": kind}


def _selftest(thorough):
    from vf import sched_selftest
    return sched_selftest.selftest(thorough)


def run(ctx: core.Ctx) -> None:
    cfgs = sorted(configs(ctx.tier), key=weight, reverse=True)
    for c in cfgs:
        c["max_seconds"] = 3000 if ctx.tier == "thorough" else 240
    results = []
    with core.pool(need_sedpack=False) as ex:
        st = ex.submit(_selftest, ctx.tier == "thorough")
        for r in ex.map(explore_config, cfgs, chunksize=1):
            results.append(r)
        errors, stats = st.result()
    report(ctx, results)
    for e in errors:
        ctx.harness_error(e)
    ctx.part("differential self-test of the fake primitives against real "
             "threading/queue", **stats)


def report(ctx: core.Ctx, results: list[dict], label: str = "") -> None:
    complete = bounded = 0
    guards: dict[str, set] = {}
    cached: dict[str, set] = {}
    for r in results:
        cfg = r["cfg"]
        ctx.add(states=max(r["states"], 0),
                transitions=r["transitions"],
                traces_validated_against_impl=r["executions"],
                complete_executions=r["complete_executions"])
        for h in r["harness"]:
            ctx.harness_error(h)
        if r["capped"]:
            ctx.harness_error(f"cap hit in {cfg}")
        if r["executions"] and not r["complete_executions"]:
            ctx.harness_error(f"vacuous search: no execution of {cfg} ran to "
                              f"its end (all {r['executions']} cut off)")
        if r["complete"]:
            complete += 1
        else:
            bounded += 1
        name = (f"{label}{cfg['variant']} T={cfg['T']} n={cfg['n']}" +
                "".join(f" {k}={cfg[k]}" for k in ("k", "p", "sp", "n2", "lines",
                                                    "cache", "workers_first",
                                                    "slow") if k in cfg))
        ctx.part(name,
                 complete=r["complete"],
                 preemption_bound=cfg.get("bound"),
                 states=r["states"],
                 executions=r["executions"],
                 transitions=r["transitions"],
                 distinct_outcomes=len(r["outcomes"]),
                 max_read_ahead=r["max_ahead"],
                 max_threads=r["max_threads"],
                 wall_s=r["wall_s"])
        for s in r["samples"][-1:]:
            ctx.sample({"config": cfg, **s}, limit=5)
        for v in r["violations"]:
            ctx.violation(sig_of(cfg, v["what"][0]),
                          f"{name}: {v['what'][0]}",
                          {"cfg": cfg, "choices": v["choices"]})
        gid = cfg.get("guard")
        key = f"{cfg['variant']}-{cfg['T']}-{cfg['n']}" + (
            f"-{cfg['k']}" if "k" in cfg else "")
        if gid:
            guards[gid] = set(r["outcomes"])
        elif cfg.get("bound") is None and not cfg.get("lines"):
            cached[key] = set(r["outcomes"])
    for gid, outs in guards.items():
        if gid in cached and cached[gid] != outs:
            ctx.harness_error(
                f"state caching guard: cached search of {gid} saw outcomes "
                f"{sorted(cached[gid])}, uncached saw {sorted(outs)}")
    ctx.cov["configurations_complete"] = ctx.cov.get(
        "configurations_complete", 0) + complete
    ctx.cov["configurations_bounded"] = ctx.cov.get(
        "configurations_bounded", 0) + bounded
    ctx.cov["exhaustive"] = True
    ctx.cov["explanation"] = (
        "every interleaving at queue/thread-operation granularity of the "
        "real lazy_pool.py under a cooperative scheduler; 'complete' "
        "configurations expand every reachable state once (state caching "
        "with worker symmetry), 'bounded' ones complete the stated "
        "preemption bound; line-granularity configurations add a scheduling "
        "point at every source line of the module; further base schedules "
        "(eager workers; waits with a time-out expiring K times in a row "
        "before the partner runs) are explored to the same bound")
    ctx.assumptions[:] = [
        "scheduling points at queue/thread/sleep operations (and at every "
        "line in the line-granularity configurations); CPython GIL makes "
        "finer interleavings unobservable for this module",
        "thread counts T<=4 and input lengths n<=2T+4 (small-scope)",
        "fake queue/threading primitives behave like the stdlib ones "
        "(checked by the differential self-test in thorough tier)",
    ]


def replay(case: dict) -> list[str]:
    return replay_case(case["cfg"], case["choices"])
