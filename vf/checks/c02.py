"""C02: exactly-once delivery (E3 unit level, E2 lazy pool, dataset level)."""
from __future__ import annotations

import collections
import shutil
import traceback

from vf import core, itertools_mc, lazypool_mc, dsfamily, ds as D
from vf.checks import c13

TAGS = {"C02"}


# ---------------------------------------------------------------------------
# (a) unit level: all random choices
# ---------------------------------------------------------------------------
def unit_configs(tier: str) -> list[dict]:
    nmax = 7 if tier == "thorough" else 6
    cfgs = []
    for fn, kinds in (("shuffle_buffer", ("list", "gen")),
                      ("shuffle_buffer_async", ("agen", "aiter"))):
        for kind in kinds:
            for n in range(0, nmax + 1):
                for b in range(1, n + 3):
                    cfgs.append(dict(fn=fn, src=kind, n=n, b=b))
    lens = (0, 1, 2, 3) if tier == "thorough" else (0, 1, 2)
    inners = [()]
    for k in (1, 2, 3):
        inners += [t for t in _tuples(lens, k)]
    if tier == "thorough":
        inners += [t for t in _tuples((0, 1, 2), 4)]
    for fn, kinds in (("round_robin", ("list", "gen")),
                      ("round_robin_async", ("agen", "aiter"))):
        for kind in kinds:
            for inner in inners:
                if kind in ("list", "aiter") and len(inner) == 3 and max(
                        inner, default=0) > 1 and tier != "thorough":
                    continue
                for b in range(1, 5):
                    cfgs.append(dict(fn=fn, src=kind, inner=inner, b=b))
    return cfgs


def _tuples(vals, k):
    if k == 0:
        yield ()
        return
    for t in _tuples(vals, k - 1):
        for v in vals:
            yield t + (v,)


def unit_sig(cfg):
    return {"engine": "choice", "fn": cfg["fn"], "src": cfg["src"]}


def run_unit(ctx, ex) -> None:
    cfgs = unit_configs(ctx.tier)
    chunks = [cfgs[i::48] for i in range(48)]
    execs = trans = 0
    outputs = 0
    for res in ex.map(itertools_mc.explore_many, chunks):
        for r in res:
            execs += r["executions"]
            trans += r["transitions"]
            outputs += r["distinct_outputs"]
            for h in r["harness"]:
                ctx.harness_error(h)
            if r["capped"]:
                ctx.harness_error(f"cap hit in {r['cfg']}")
            for v in r["violations"]:
                ctx.violation(unit_sig(r["cfg"]), v["what"][0],
                              {"kind": "unit", "cfg": r["cfg"],
                               "choices": v["choices"]})
            if r["cfg"].get("n") == 4 and r["cfg"]["b"] == 2:
                ctx.sample({"unit": r["cfg"], **(r["samples"][0]
                                                 if r["samples"] else {})})
    ctx.part("unit: shuffle_buffer/round_robin (sync+async), all random "
             "choices", configurations=len(cfgs), executions=execs,
             choice_transitions=trans, distinct_outputs=outputs)
    ctx.add(states=outputs, transitions=trans,
            traces_validated_against_impl=execs)


# ---------------------------------------------------------------------------
# (c) dataset level, OS schedule
# ---------------------------------------------------------------------------
class Tagger:
    """process_record that tags and counts (picklable, thread safe enough:
    list.append is atomic)."""

    def __init__(self):
        self.calls = []

    def __call__(self, ex):
        idt = D.to_id(ex)
        self.calls.append(idt)
        return ("tag", idt)


def dataset_case(args) -> dict:
    name, tier = args
    root = core.fresh_dir("c02")
    out = {"name": name, "bad": [], "cases": 0, "harness": None,
           "distinct": 0}
    try:
        from sedpack.io import Dataset
        # "<recipe>/nohash": no checksum algorithm configured at all
        recipe, _, variant = name.partition("/")
        _, ref = dsfamily.build(root, recipe, hashes=() if variant == "nohash"
                                else ("sha256",))
        fmt = (dsfamily.RECIPES.get(recipe) or dsfamily.EXTRA[recipe])[0]
        dataset = Dataset(root)
        seen = set()
        for split, want in ref.items():
            N = len(want)
            S = dsfamily.n_shards(dataset, split)
            shuffles = sorted({0, 1, 2, 3, N, N + 5})
            pars = sorted({1, 2, S, S + 2})
            for iface in dsfamily.interfaces(fmt, with_rust=True):
                reps = 3 if iface == "tf" and tier == "thorough" else 1
                for sh in shuffles:
                    # None: the interface's own default (the CPU count)
                    for par in (pars + [None] if iface != "sync" else [None]):
                        for with_pr in ((False, True)
                                        if iface != "tf" else (False,)):
                            for _ in range(reps):
                                kw = {"shuffle": sh}
                                if par is not None:
                                    kw["file_parallelism"] = par
                                if iface == "tf" and (sh + (par or 0)) % 2:
                                    kw["batch_size"] = 2  # batched + unbatch
                                tg = Tagger() if with_pr else None
                                if tg:
                                    kw["process_record"] = tg
                                out["cases"] += 1
                                try:
                                    got = D.iterate(dataset, split, iface,
                                                    **kw)
                                    if tg:
                                        ids_ = [g[1] for g in got]
                                        if any(g[0] != "tag" for g in got):
                                            raise ValueError("untagged")
                                    else:
                                        ids_ = [D.to_id(e) for e in got]
                                except Exception as e:  # pylint: disable=broad-except
                                    out["bad"].append(
                                        ({"iface": iface, "symptom": "raises"},
                                         f"{name}/{split} {iface} {kw}: "
                                         f"{type(e).__name__}: {str(e)[:150]}",
                                         dict(name=name, split=split,
                                              iface=iface, shuffle=sh,
                                              par=par, pr=with_pr)))
                                    continue
                                seen.add((split, iface, tuple(ids_)))
                                msg = None
                                if collections.Counter(
                                        ids_) != collections.Counter(want):
                                    miss = collections.Counter(
                                        want) - collections.Counter(ids_)
                                    extra = collections.Counter(
                                        ids_) - collections.Counter(want)
                                    msg = (f"missing "
                                           f"{sorted(miss.elements())} "
                                           f"duplicated/foreign "
                                           f"{sorted(extra.elements())}")
                                elif tg and collections.Counter(
                                        tg.calls) != collections.Counter(ids_):
                                    msg = (f"process_record applied "
                                           f"{len(tg.calls)} times for "
                                           f"{len(ids_)} yielded examples")
                                if msg:
                                    out["bad"].append(
                                        ({"iface": iface,
                                          "symptom": "multiset",
                                          "shuffled": bool(sh)},
                                         f"{name}/{split} {iface} shuffle="
                                         f"{sh} file_parallelism={par} "
                                         f"process_record={with_pr}: {msg}",
                                         dict(name=name, split=split,
                                              iface=iface, shuffle=sh,
                                              par=par, pr=with_pr)))
        out["distinct"] = len(seen)
    except Exception as e:  # pylint: disable=broad-except
        out["harness"] = f"{type(e).__name__}: {e} " + traceback.format_exc(
        )[-400:]
    finally:
        shutil.rmtree(root, ignore_errors=True)
    return out


def run_datasets(ctx, ex) -> None:
    # many64: more shards than 3 x the default parallelism (CPU count) + 2
    names = list(dsfamily.RECIPES) + ["many64", "flat/nohash",
                                      "nested/nohash", "bushy/nohash"]
    tot = 0
    distinct = 0
    for r in ex.map(dataset_case, [(n, ctx.tier) for n in names]):
        if r["harness"]:
            ctx.harness_error(f"{r['name']}: {r['harness']}")
            continue
        tot += r["cases"]
        distinct += r["distinct"]
        for sig, msg, case in r["bad"]:
            sig = dict(sig, engine="dataset")
            ctx.violation(sig, msg, dict(case, kind="dataset"))
    ctx.part("dataset level (OS schedule): recipes x interfaces x shuffle x "
             "file_parallelism x process_record", passes=tot,
             distinct_sequences=distinct, recipes=len(names))
    ctx.add(states=distinct, transitions=tot,
            traces_validated_against_impl=tot)
    ctx.sample({"dataset_case": {"recipe": "nested", "iface": "concurrent",
                                 "shuffle": 3, "file_parallelism": 2}})


# ---------------------------------------------------------------------------
def pool_configs(tier):
    c = [dict(variant="full", T=T, n=n) for T, ns in ((1, range(0, 7)),
                                                      (2, range(0, 5)))
         for n in ns]
    c += [dict(variant="full", T=3, n=n, bound=2) for n in (1, 3)]
    c += [dict(variant="full", T=3, n=n, bound=1) for n in (6, 9)]
    if tier == "thorough":
        c += [dict(variant="full", T=2, n=n) for n in (5, 6, 7)]
        c += [dict(variant="full", T=3, n=n) for n in (0, 1, 2, 3)]
    return c


def run(ctx: core.Ctx) -> None:
    from vf import rustbuild
    rustbuild.ensure_ext()
    with core.pool(need_sedpack=False) as ex:
        run_unit(ctx, ex)
        pc = sorted(pool_configs(ctx.tier), key=c13.weight, reverse=True)
        for c in pc:
            c["max_seconds"] = 1500 if ctx.tier == "thorough" else 200
        res = list(ex.map(lazypool_mc.explore_config, pc))
    sub = core.Ctx("C13", ctx.tier, ctx.seed)
    sub.findings = []
    c13.report(sub, res, label="lazy pool ")
    for v in sub.violations:
        ctx.violation(dict(v["sig"], engine="sched"), v["what"],
                      {"kind": "pool", **_case_of(v["path"])})
    ctx.parts.update(sub.parts)
    for k in ("states", "transitions", "traces_validated_against_impl"):
        ctx.add(**{k: sub.cov.get(k, 0)})
    for h in sub.harness_errors:
        ctx.harness_error(h)
    with core.pool() as ex:
        run_datasets(ctx, ex)
        from vf import dataset_mc
        dataset_mc.run_controlled(ctx, ex, TAGS)
    ctx.cov["exhaustive"] = True
    ctx.cov["explanation"] = (
        "(a) every outcome of every random draw of shuffle_buffer / "
        "round_robin (sync, async; list, generator, async generator, plain "
        "async iterator sources) for all source lengths and buffer sizes in "
        "the bound; (b) every interleaving of the lazy pool (full pass); (c) "
        "dataset family x interface x shuffle x file_parallelism x "
        "process_record on the OS schedule; (d) shuffled concurrent reading "
        "with the lazy pool under the cooperative scheduler and the random "
        "draws enumerated jointly under a deviation bound; unshuffled "
        "concurrent reading under every completion order of every batch")
    ctx.assumptions[:] = [
        "tf.data internal threads and the Rust reader threads run on the OS "
        "schedule at dataset level (the Rust parallel map is explored "
        "exhaustively under C15)",
        "datasets of <= 7 examples and <= 5 shards",
    ]


def _case_of(path):
    import json
    return json.loads(open(path).read())["case"]


def replay(case: dict) -> list[str]:
    kind = case.get("kind")
    if kind == "unit":
        return itertools_mc.replay_case(case["cfg"], case["choices"])
    if kind == "pool":
        return lazypool_mc.replay_case(case["cfg"], case["choices"])
    if kind == "controlled":
        from vf import dataset_mc
        return dataset_mc.replay(case)
    core.import_sedpack_quietly()
    r = dataset_case((case["name"], "quick"))
    return [m for s, m, c in r["bad"] if c["iface"] == case["iface"]]
