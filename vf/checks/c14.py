"""C14: iteration is lazy - read-ahead bounded by the configured buffers."""
import shutil
import traceback

from vf import core, itertools_mc, lazypool_mc, dsfamily, ds as D, dataset_mc
from vf.checks import c13

TAGS = {"C14"}


def unit_configs(tier):
    """(group key, cfg): within a group only the source length varies, the
    measured read-ahead must be identical (never grows with the length)."""
    out = []
    Ns = (6, 12, 24, None)
    for fn, kind in (("shuffle_buffer", "gen"), ("shuffle_buffer", "list"),
                     ("shuffle_buffer_async", "agen"),
                     ("shuffle_buffer_async", "aiter")):
        for b in (1, 2, 3, 4):
            for take in (1, 2, 3):
                for n in Ns:
                    if n is None and kind in ("list", "aiter"):
                        continue  # these presentations are finite by nature
                    out.append(((fn, kind, b, take),
                                dict(fn=fn, src=kind, n=n, b=b, take=take,
                                     bound=None if b**take <= 81 else 2)))
    # large buffers (the library's default shuffle is 1000): only the default
    # random answers, the read-ahead must still not depend on the length
    for fn, kind in (("shuffle_buffer", "gen"),
                     ("shuffle_buffer_async", "agen")):
        for b in (64, 1000, 5000):
            for n in (2 * b + 3, 4 * b + 1, None):
                out.append(((fn, kind, b, 2),
                            dict(fn=fn, src=kind, n=n, b=b, take=2, bound=0)))
    for fn, kind in (("round_robin", "gen"), ("round_robin_async", "agen")):
        for b in (64, 1000):
            for rep in (3 * b, 6 * b):
                out.append(((fn, kind, b, 2, "big"),
                            dict(fn=fn, src=kind, inner=(1,) * rep, b=b,
                                 take=2, bound=0)))
            out.append(((fn, kind, b, 2, "big"),
                        dict(fn=fn, src=kind, inner=(1,), b=b, take=2,
                             bound=0, repeat_inner=True)))
    for fn, kind in (("round_robin", "gen"), ("round_robin_async", "agen")):
        for b in (1, 2, 3):
            for take in (1, 3):
                for inner in ((2, 0, 1), (1, 1), (3,)):
                    for rep in (4, 8, 16):
                        out.append(((fn, kind, b, take, inner),
                                    dict(fn=fn, src=kind, inner=inner * rep,
                                         b=b, take=take, bound=2)))
                    out.append(((fn, kind, b, take, inner),
                                dict(fn=fn, src=kind, inner=inner, b=b,
                                     take=take, bound=2, repeat_inner=True)))
    return out


def pool_configs(tier):
    out = []
    for T in (1, 2):
        for k in (1, 2, 2 * T + 3):
            for n in (3 * T + 4, 6 * T + 8, None):
                bound = None if T == 1 else (2 if tier == "quick" else 3)
                out.append(((T, k), dict(variant="early", T=T, n=n, k=k,
                                         bound=bound)))
    for k in (1, 3):
        for n in (10, 20, None):
            out.append(((3, k), dict(variant="early", T=3, n=n, k=k,
                                     bound=1 if tier == "quick" else 2)))
    # other base schedules: eager workers; partners slower than any time-out
    # the code waits with (each such wait expires K times in a row first)
    for T in (1, 2):
        for k in (1, 3):
            for n in (3 * T + 4, 6 * T + 8, None):
                out.append(((T, k, "slow"), dict(
                    variant="early", T=T, n=n, k=k, slow=3 * T + 8,
                    bound=1 if tier == "quick" else 2)))
                out.append(((T, k, "eager"), dict(
                    variant="early", T=T, n=n, k=k, workers_first=True,
                    bound=1 if tier == "quick" else 2)))
    return out


def native_case(args) -> dict:
    """Rust / tf.data / python readers on the OS schedule: take k examples of
    a repeating stream, count shard opens with inotify."""
    name, tier = args
    root = core.fresh_dir("c14")
    out = {"name": name, "bad": [], "cases": 0, "harness": None, "max": {}}
    try:
        from sedpack.io import Dataset
        _, ref = dsfamily.build(root, name)
        fmt, eps, _ = dsfamily.RECIPES[name]
        ds_ = Dataset(root)
        for split, want in ref.items():
            S = dsfamily.n_shards(ds_, split)
            for iface in dsfamily.interfaces(fmt, with_rust=True):
                for sh in (0, 3):
                    # as_tfdataset documents file_parallelism=None
                    for par in (((1, 2, 4) + (("none",) if iface == "tf"
                                              else ()))
                                if iface != "sync" else (None,)):
                        for k in (1, 2 * len(want) + 1):
                            kw = {"shuffle": sh}
                            if par == "none":
                                kw["file_parallelism"] = None
                                par = None
                            elif par:
                                kw["file_parallelism"] = par
                            oc = D.OpenCounter(root)
                            try:
                                got = D.with_alarm(
                                    120 if "file_parallelism" not in kw or
                                    kw["file_parallelism"] else 45,
                                    lambda: D.take(ds_, split, iface, k, **kw))
                                opens = oc.read()
                            except D.Watchdog as e:
                                out["bad"].append(
                                    ("hang", iface,
                                     f"{name}/{split} {iface} {kw}: taking "
                                     f"{k} examples from the repeating "
                                     f"stream does not terminate ({e})"))
                                continue
                            except Exception as e:  # pylint: disable=broad-except
                                out["bad"].append(
                                    ("raises", iface,
                                     f"{name}/{split} {iface} {kw}: "
                                     f"{type(e).__name__}: {str(e)[:120]}"))
                                continue
                            finally:
                                oc.close()
                            out["cases"] += 1
                            if len(got) != k:
                                out["bad"].append(
                                    ("short", iface,
                                     f"{name}/{split} {iface} {kw}: asked "
                                     f"for {k}, got {len(got)}"))
                            p = par or 1
                            # shards that must be read for k examples, if
                            # every shard were minimal (1 example): k.
                            # tf.data adds prefetch(2) + autotuned buffers.
                            cap = k + 4 * (p + max(sh, 1)) + 8
                            if iface == "rust":
                                # the Rust reader is handed one epoch of
                                # shard paths at a time: bound per epoch
                                cap = k + 4 * p + 8
                            key = f"{iface}"
                            out["max"][key] = max(out["max"].get(key, 0),
                                                  opens)
                            if opens > cap and iface != "tf":
                                out["bad"].append(
                                    ("read-ahead", iface,
                                     f"{name}/{split} {iface} {kw}: {opens} "
                                     f"shard opens for {k} examples (cap "
                                     f"{cap})"))
    except Exception as e:  # pylint: disable=broad-except
        out["harness"] = f"{type(e).__name__}: {e} " + traceback.format_exc(
        )[-400:]
    finally:
        shutil.rmtree(root, ignore_errors=True)
    return out


def slow_consumer_case(args) -> dict:
    """Many one-example shards, a consumer that is slower than the readers
    (sleeps between examples), OS schedule: shard opens (inotify) for the
    first k examples must stay within needed + cap."""
    import time
    name, iface, sh, par, k, repeat = args
    root = core.fresh_dir("c14s")
    out = {"bad": [], "cases": 0, "harness": None, "opens": None,
           "args": list(args)}
    try:
        from sedpack.io import Dataset
        dsfamily.build(root, name)
        ds_ = Dataset(root)
        oc = D.OpenCounter(root)
        kw = dict(split="train", shuffle=sh, repeat=repeat)
        if iface != "sync":
            kw["file_parallelism"] = par

        def go():
            n = 0
            if iface == "async":
                import asyncio

                async def run():
                    nn = 0
                    agen = ds_.as_numpy_iterator_async(**kw)
                    async for _ in agen:
                        nn += 1
                        await asyncio.sleep(0.002)
                        if nn >= k:
                            break
                    await agen.aclose()
                    return nn

                return asyncio.run(run())
            fn = {"sync": ds_.as_numpy_iterator,
                  "concurrent": ds_.as_numpy_iterator_concurrent,
                  "rust": ds_.as_numpy_iterator_rust}[iface]
            gen = fn(**kw)
            for _ in gen:
                n += 1
                time.sleep(0.002)
                if n >= k:
                    break
            opens_ = oc.read()
            gen.close()
            return n, opens_

        res = D.with_alarm(120, go)
        if isinstance(res, tuple):
            n, opens = res
        else:
            n, opens = res, oc.read()
        oc.close()
        out["cases"] = 1
        out["opens"] = opens
        cap = k + 4 * (par + max(sh, 1)) + 8
        if n != k:
            out["bad"].append(("short", iface, f"{args}: got {n} of {k}"))
        if opens > cap:
            out["bad"].append(
                ("read-ahead", iface,
                 f"{name} {iface} shuffle={sh} file_parallelism={par} "
                 f"repeat={repeat}, slow consumer: {opens} shard opens "
                 f"while the first {k} examples (1 per shard) were "
                 f"consumed (cap {cap})"))
    except Exception as e:  # pylint: disable=broad-except
        out["harness"] = f"{type(e).__name__}: {e} " + traceback.format_exc(
        )[-400:]
    finally:
        shutil.rmtree(root, ignore_errors=True)
    return out


def _explore_unit(item):
    key, cfg = item
    return key, itertools_mc.explore_config(cfg)


def _explore_pool(item):
    key, cfg = item
    return key, lazypool_mc.explore_config(cfg)


def run(ctx):
    from vf import rustbuild
    rustbuild.ensure_ext()
    groups: dict = {}
    with core.pool(need_sedpack=False) as ex:
        ucfg = unit_configs(ctx.tier)
        n_exec = n_tr = 0
        for key, r in ex.map(_explore_unit, ucfg, chunksize=8):
            n_exec += r["executions"]
            n_tr += r["transitions"]
            for h in r["harness"]:
                ctx.harness_error(h)
            for v in r["violations"]:
                ctx.violation({"engine": "choice", "fn": r["cfg"]["fn"],
                               "symptom": "cap"}, v["what"][0],
                              {"kind": "unit", "cfg": r["cfg"],
                               "choices": v["choices"]})
            m = r["max_ahead"] if r["cfg"]["fn"].startswith(
                "shuffle") else r["max_opened"]
            groups.setdefault(("unit",) + key, []).append(
                (r["cfg"].get("n", r["cfg"].get("inner")), m, r["cfg"]))
        ctx.part("unit: take-k from sources of length N, 2N, 4N, infinite "
                 "(all random choices)", configurations=len(ucfg),
                 executions=n_exec, transitions=n_tr)
        ctx.add(states=n_exec, transitions=n_tr,
                traces_validated_against_impl=n_exec)
        pcfg = pool_configs(ctx.tier)
        for _, c in pcfg:
            c["max_seconds"] = 1500 if ctx.tier == "thorough" else 200
        res = list(ex.map(_explore_pool,
                          sorted(pcfg, key=lambda kc: c13.weight(kc[1]),
                                 reverse=True)))
    sub = core.Ctx("C13", ctx.tier, ctx.seed)
    sub.findings = []
    c13.report(sub, [r for _, r in res], label="lazy pool ")
    ctx.parts.update(sub.parts)
    for k in ("states", "transitions", "traces_validated_against_impl"):
        ctx.add(**{k: sub.cov.get(k, 0)})
    for h in sub.harness_errors:
        ctx.harness_error(h)
    for v in sub.violations:
        if "read-ahead" in v["what"]:
            ctx.violation({"engine": "sched", "symptom": "cap"}, v["what"],
                          {"kind": "pool", **_case_of(v["path"])})
    for key, r in res:
        groups.setdefault(("pool",) + key, []).append(
            (r["cfg"]["n"], r["max_ahead"], r["cfg"]))
    # differential oracle: read-ahead independent of the stream length
    for gkey, members in groups.items():
        vals = {m for _, m, _ in members}
        if len(vals) > 1 and gkey[1] not in ("round_robin",
                                             "round_robin_async"):
            ctx.violation(
                {"engine": gkey[0], "symptom": "grows-with-length"},
                f"{gkey}: read-ahead depends on the stream length: "
                f"{[(n, m) for n, m, _ in members]}",
                {"kind": "group", "members": [c for _, _, c in members]})
        elif len(vals) > 1:
            # round robin: opened inner iterables may not grow with the
            # number of inner iterables available
            ms = [m for _, m, _ in members]
            if max(ms) != min(ms):
                ctx.violation(
                    {"engine": gkey[0], "symptom": "grows-with-length"},
                    f"{gkey}: inner iterables opened grows with the stream "
                    f"length: {[(n, m) for n, m, _ in members]}",
                    {"kind": "group", "members": [c for _, _, c in members]})
    ctx.part("differential groups (same buffers, different stream lengths)",
             groups=len(groups))
    with core.pool() as ex:
        tot = 0
        mx = {}
        # tf.data / Rust consume in native threads: an endless read-ahead
        # there cannot be interrupted from Python and ends with the worker
        # hung or killed for memory - the pool is watched from outside
        for t, r in core.run_with_watchdog(
                native_case, [(n, ctx.tier) for n in dsfamily.RECIPES], 300,
                stop_after_hang=True):
            if r.get("hung"):
                sig, msg, _ = r["bad"][0]
                ctx.violation({"engine": "dataset", **sig},
                              f"take-k from repeating streams of recipe "
                              f"{t[0]}: {msg}",
                              {"kind": "native", "name": t[0]})
                continue
            if r["harness"]:
                ctx.harness_error(f"{r['name']}: {r['harness']}")
                continue
            tot += r["cases"]
            for k, v in r["max"].items():
                mx[k] = max(mx.get(k, 0), v)
            for sym, iface, msg in r["bad"]:
                ctx.violation({"engine": "dataset", "symptom": sym,
                               "iface": iface}, msg,
                              {"kind": "native", "name": r["name"]})
        ctx.part("dataset level (OS schedule, shard opens counted with "
                 "inotify): take k from the repeating stream", cases=tot,
                 max_opens_per_interface=mx)
        slow = []
        for name in ("many120", "many120npz"):
            for iface in ("sync", "concurrent", "async") + (
                    ("rust",) if name == "many120" else ()):
                for sh in (0, 5):
                    for par in ((2, 4) if iface != "sync" else (1,)):
                        for rep in (False, True):
                            slow.append((name, iface, sh, par, 30, rep))
        mo = {}
        ns = 0
        for r in ex.map(slow_consumer_case, slow):
            if r["harness"]:
                ctx.harness_error(f"{r['args']}: {r['harness']}")
                continue
            ns += r["cases"]
            mo[r["args"][1]] = max(mo.get(r["args"][1], 0), r["opens"] or 0)
            for sym, iface, msg in r["bad"]:
                ctx.violation({"engine": "dataset", "symptom": sym,
                               "iface": iface, "consumer": "slow"}, msg,
                              {"kind": "slow", "args": r["args"]})
        ctx.part("120 one-example shards, consumer sleeping 2 ms per "
                 "example (OS schedule): opens for the first 30 examples",
                 cases=ns, max_opens_per_interface=mo)
        ctx.add(states=ns, transitions=ns, traces_validated_against_impl=ns)
        ctx.add(states=tot, transitions=tot,
                traces_validated_against_impl=tot)
        dataset_mc.run_controlled(ctx, ex, TAGS, what="take")
    ctx.sample({"group": "shuffle_buffer gen b=2 take=2",
                "lengths": [6, 12, 24, "infinite"],
                "oracle": "identical maximal read-ahead"})
    ctx.cov["exhaustive"] = True
    ctx.cov["explanation"] = (
        "read-ahead (source elements drawn minus yielded / inner iterables "
        "or shards opened) is measured in every execution of: all random "
        "choices of the shuffle buffer and round robin; all interleavings "
        "of the lazy pool (complete for T=1, preemption bounded for T=2,3) "
        "for stream lengths N, 2N and infinite; controlled dataset-level "
        "runs; OS-schedule runs of every interface incl. Rust and tf.data "
        "with inotify open counts.  Oracles: differential (independent of "
        "the length) + generous cap 4(b+T)+8 + termination of take-k")
    ctx.assumptions[:] = [
        "cap is twice as loose as today's mechanisms (DESIGN.md C14)",
        "tf.data: only termination is required (autotuned prefetching)",
    ]


def _case_of(path):
    import json
    return json.loads(open(path).read())["case"]


def replay(case):
    kind = case.get("kind")
    if kind == "unit":
        return itertools_mc.replay_case(case["cfg"], case["choices"])
    if kind == "pool":
        return lazypool_mc.replay_case(case["cfg"], case["choices"])
    if kind == "controlled":
        return dataset_mc.replay(case)
    if kind == "slow":
        core.import_sedpack_quietly()
        return [m for _, _, m in slow_consumer_case(tuple(case["args"]))["bad"]]
    if kind == "group":
        ms = []
        for cfg in case["members"]:
            if "fn" in cfg:
                r = itertools_mc.explore_config(cfg)
                ms.append(r["max_ahead"] if cfg["fn"].startswith("shuffle")
                          else r["max_opened"])
            else:
                ms.append(lazypool_mc.explore_config(cfg)["max_ahead"])
        return [] if len(set(ms)) == 1 else [
            f"read-ahead depends on the stream length: {ms}"
        ]
    core.import_sedpack_quietly()
    r = native_case((case["name"], "quick"))
    return [m for _, _, m in r["bad"]]
