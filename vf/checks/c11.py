"""C11: shard custom metadata labels exactly its examples (within-session)."""
from vf import wseq
from vf.checks.c10 import letters

TAGS = {"C11"}


def plans(tier):
    two = ("train", "test")
    M = ("-", "A", "B", "SA", "SB", "E", "NA", "NB")
    if tier == "thorough":
        return [
            dict(fmt="fb", eps=2, depth=5,
                 letters=letters(("train",), ("ok",),
                                 ("-", "A", "AX", "I1", "S1", "F"))),
            dict(fmt="fb", eps=3, depth=5,
                 letters=letters(("train",), ("ok",),
                                 ("-", "A", "L0", "L1", "L2"))),
            dict(fmt="npz", eps=2, depth=4,
                 letters=letters(("train", "test"), ("ok",), ("L1", "L2"))),
        ] + [
            dict(fmt="fb", eps=e, depth=4,
                 letters=letters(two, ("ok",), M) +
                 letters(("train",), ("shape1",), ("A", "SB")))
            for e in (1, 2, 3)
        ] + [
            dict(fmt="fb", eps=2, depth=6,
                 letters=letters(("train",), ("ok",), M)),
            dict(fmt="npz", eps=2, depth=4,
                 letters=letters(("train",), ("ok", "shape1"), M)),
            dict(fmt="tfrec", eps=2, depth=3,
                 letters=letters(("train",), ("ok",), M)),
        ]
    return [
        dict(fmt="fb", eps=2, depth=3,
             letters=letters(two, ("ok",), M) +
             letters(("train",), ("shape1",), ("A", "SB"))),
        # values that differ only in type, extend one another, or are falsy
        dict(fmt="fb", eps=2, depth=4,
             letters=letters(("train",), ("ok",),
                             ("-", "A", "AX", "I1", "S1", "F"))),
        dict(fmt="npz", eps=1, depth=3,
             letters=letters(("train",), ("ok",), ("A", "AX", "I1", "S1",
                                                    "F"))),
        # equal values with another insertion order of the keys
        dict(fmt="fb", eps=2, depth=3,
             letters=letters(("train",), ("ok",), ("AX", "XA", "N1", "N2"))),
        # nested lists that are prefixes of one another, growing / shrinking
        dict(fmt="fb", eps=3, depth=4,
             letters=letters(("train",), ("ok",), ("-", "L0", "L1", "L2"))),
        dict(fmt="npz", eps=2, depth=3,
             letters=letters(("train", "test"), ("ok",), ("L1", "L2"))),
        dict(fmt="fb", eps=1, depth=4, letters=letters(("train",), ("ok",), M)),
        dict(fmt="fb", eps=3, depth=5,
             letters=letters(("train",), ("ok",), ("-", "A", "SA", "NB"))),
        dict(fmt="npz", eps=2, depth=3,
             letters=letters(("train",), ("ok",), ("-", "A", "NA", "NB"))),
        dict(fmt="tfrec", eps=2, depth=2,
             letters=letters(("train",), ("ok",), ("-", "A", "SB"))),
    ]


def run(ctx):
    wseq.run_plans(ctx, TAGS, plans(ctx.tier))
    ctx.cov["explanation"] = (
        "all sequences of write_example calls whose metadata argument is "
        "absent, empty, a fresh A/B dict, or one shared dict object mutated "
        "in place before the call (and again after the last write, before "
        "the context exits); oracle: every example written under a "
        "non-empty value lies in a shard recorded with exactly that value "
        "(snapshot at call time), and shard_filter on the value returns all "
        "and only those examples among the labelled ones")
    ctx.assumptions[:] = [
        "examples written without metadata are unconstrained (statement)",
        "metadata values are small JSON dicts",
    ]


def replay(case):
    return wseq.replay_seq(case, TAGS)
