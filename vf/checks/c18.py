"""C18: write-time validation is all-or-nothing and never poisons a shard."""
import shutil
import traceback

import numpy as np

from vf import core, ds as D, wseq
from vf.checks.c10 import letters

TAGS = {"C18"}

VALS = ("ok", "oklist", "shape0", "shape1", "shape2", "rank0", "rank2",
        "scalar1", "unsafe1", "unsafe2", "foreign0", "foreign2", "missing1",
        "missing2", "extra", "container")
READERS = {
    "fb": ("sync", "concurrent", "async"),
    "npz": ("sync", "concurrent", "async"),
    "tfrec": ("sync", "concurrent", "tf"),
}
DTYPES = ("int8", "uint8", "int16", "uint16", "int32", "uint32", "int64",
          "uint64", "float16", "float32", "float64", "bool", "str", "bytes")


def plans(tier):
    base = letters(("train",), VALS, ("-",)) + letters(
        ("train",), ("ok", "shape0", "foreign2"), ("A", "B"))
    small = letters(("train",), ("ok", "shape2", "unsafe1", "foreign0",
                                 "missing1", "extra"), ("-", "A"))
    withb = letters(("train",), ("ok", "shape2", "rank2", "shape0", "missing2",
                                 "bigbytes", "emptybytes"), ("-", "A"))
    bplans = [
        dict(fmt="tfrec+b", eps=2, depth=2, letters=withb, readers=("sync",)),
        dict(fmt="npz+b", eps=2, depth=2 if tier == "quick" else 3,
             letters=withb, readers=("sync", "concurrent")),
    ]
    if tier == "thorough":
        return bplans + [
            dict(fmt="fb+reuse", eps=2, depth=4, letters=small,
                 readers=("sync",)),
            dict(fmt="npz+reuse", eps=2, depth=3, letters=small,
                 readers=("sync",)),
            dict(fmt="tfrec+reuse", eps=2, depth=2, letters=small,
                 readers=("sync",)),
            dict(fmt="fb", eps=2, depth=4, letters=base, readers=("sync",)),
            dict(fmt="fb", eps=2, depth=2, letters=base,
                 readers=READERS["fb"]),
            dict(fmt="npz", eps=2, depth=3, letters=base,
                 readers=READERS["npz"]),
            dict(fmt="tfrec", eps=2, depth=2, letters=base,
                 readers=READERS["tfrec"]),
            dict(fmt="fb", eps=1, depth=3, letters=base, readers=("sync",)),
            dict(fmt="fb", eps=3, depth=4, letters=small, readers=("sync",)),
        ]
    return bplans + [
        dict(fmt="fb+reuse", eps=2, depth=3, letters=small,
             readers=("sync",)),
        dict(fmt="npz+reuse", eps=2, depth=2, letters=small,
             readers=("sync",)),
        dict(fmt="fb", eps=2, depth=3, letters=base, readers=("sync",)),
        dict(fmt="fb", eps=2, depth=2, letters=small, readers=READERS["fb"]),
        dict(fmt="npz", eps=2, depth=2, letters=base,
             readers=READERS["npz"]),
        dict(fmt="npz", eps=1, depth=3, letters=small, readers=("sync",)),
        dict(fmt="tfrec", eps=2, depth=2, letters=small, readers=("sync",)),
        dict(fmt="tfrec", eps=2, depth=1, letters=base,
             readers=READERS["tfrec"]),
    ]


# ---------------------------------------------------------------------------
# declaration grid: supported and unsupported dtype declarations
# ---------------------------------------------------------------------------
def natural(dtype: str, shape: tuple, k: int):
    n = int(np.prod(shape)) if shape else 1
    if dtype == "str":
        vals = [f"héllo{k}{i}" for i in range(n)]
        return vals[0] if shape == () else np.array(vals).reshape(shape)
    if dtype == "bytes":
        vals = [b"a\x00b" + bytes([65 + k, 65 + i]) for i in range(n)]
        return vals[0] if shape == () else np.array(vals).reshape(shape)
    a = (np.arange(n) + k).reshape(shape).astype(dtype)
    return a if shape else a[()]


def decl_case(args) -> dict:
    fmt, dtype, shape = args
    from sedpack.io import Dataset, Metadata
    from sedpack.io.metadata import Attribute, DatasetStructure
    root = core.fresh_dir("decl")
    out = {"fmt": fmt, "dtype": dtype, "shape": list(shape), "bad": [],
           "accepted": 0, "rejected": 0}
    try:
        try:
            struct = DatasetStructure(
                saved_data_description=[
                    Attribute(name="a", dtype=dtype, shape=shape)
                ],
                compression="",
                examples_per_shard=2,
                shard_file_type=fmt,
                hash_checksum_algorithms=("md5",),
            )
            ds_ = Dataset.create(path=root, metadata=Metadata(),
                                 dataset_structure=struct)
        except Exception as e:  # pylint: disable=broad-except
            out["declaration_rejected"] = f"{type(e).__name__}"
            return out
        try:
            with ds_.filler() as f:
                for k in range(3):
                    try:
                        f.write_example(values={"a": natural(dtype, shape, k)},
                                        split="train")
                        out["accepted"] += 1
                    except Exception:  # pylint: disable=broad-except
                        out["rejected"] += 1
                if dtype in ("bytes", "str") and len(shape) == 1:
                    # one bytes / str object whose LENGTH equals the declared
                    # size (a string is a scalar, not a vector of characters)
                    for v in (b"x" * shape[0], "y" * shape[0],
                              bytearray(b"z" * shape[0])):
                        try:
                            f.write_example(values={"a": v}, split="train")
                            out["accepted"] += 1
                        except Exception:  # pylint: disable=broad-except
                            out["rejected"] += 1
        except Exception as e:  # pylint: disable=broad-except
            out["bad"].append(("exit-fails",
                               f"closing the session raised "
                               f"{type(e).__name__}: {str(e)[:100]}"))
            return out
        if not out["accepted"]:
            return out
        fresh = Dataset(root)
        for reader in READERS[fmt]:
            try:
                got = D.iterate(fresh, "train", reader)
            except Exception as e:  # pylint: disable=broad-except
                out["bad"].append(("undecodable",
                                   f"{out['accepted']} writes were accepted "
                                   f"but reader {reader} fails: "
                                   f"{type(e).__name__}: {str(e)[:100]}"))
                continue
            if len(got) != out["accepted"]:
                out["bad"].append(("count",
                                   f"reader {reader} yields {len(got)} of "
                                   f"{out['accepted']} accepted examples"))
        return out
    except Exception as e:  # pylint: disable=broad-except
        out["harness"] = f"{type(e).__name__}: {e} " + traceback.format_exc(
        )[-300:]
        return out
    finally:
        shutil.rmtree(root, ignore_errors=True)


def scalar_objects() -> list[tuple[str, object]]:
    return [("py float 2.7", 2.7), ("np.float64 2.7", np.float64(2.7)),
            ("py float 2.0", 2.0), ("py int 3", 3), ("py bool True", True),
            ("np.float64 1e300", np.float64(1e300)),
            ("py int 16777217", 16777217), ("py int 2**40", 2**40),
            ("py int -1", -1), ("np.int64 2**40", np.int64(2**40)),
            ("np.float32 2.5", np.float32(2.5)), ("np.int8 5", np.int8(5)),
            ("np.uint8 200", np.uint8(200)), ("py float nan", float("nan")),
            ("str", "x"), ("bytes", b"x"), ("None", None),
            ("complex", 1 + 2j), ("0-d float64 2.7", np.array(2.7)),
            ("0-d int64 300", np.array(300))]


def scalar_case(args) -> dict:
    """Rank-0 attribute: scalar objects of every kind, as the first and as
    the last write of a shard, between valid writes."""
    fmt, dtype = args
    from sedpack.io import Dataset, Metadata
    from sedpack.io.metadata import Attribute, DatasetStructure
    out = {"fmt": fmt, "dtype": dtype, "shape": [], "bad": [],
           "accepted": 0, "rejected": 0, "cases": 0}
    box = core.fresh_dir("scal")
    try:
        n = 0
        for sname, sval in scalar_objects():
            for pos in (0, 1):
                n += 1
                root = box / f"d{n}"
                struct = DatasetStructure(
                    saved_data_description=[
                        Attribute(name="a", dtype=dtype, shape=())
                    ],
                    compression="", examples_per_shard=2,
                    shard_file_type=fmt, hash_checksum_algorithms=("md5",))
                ds_ = Dataset.create(path=root, metadata=Metadata(),
                                     dataset_structure=struct)
                seq = [("ok", natural(dtype, (), 1)),
                       ("ok", natural(dtype, (), 2))]
                seq.insert(pos, ("s", sval))
                seq.append(("ok", natural(dtype, (), 3)))
                kept = []
                desc = (f"{sname} written as {'first' if pos == 0 else 'last'}"
                        f" example of a shard")
                try:
                    with ds_.filler() as f:
                        for kind, v in seq:
                            try:
                                f.write_example(values={"a": v},
                                                split="train")
                                kept.append((kind, v))
                                out["accepted" if kind == "s" else
                                    "cases"] += 1
                            except Exception:  # pylint: disable=broad-except
                                if kind == "ok":
                                    out["bad"].append(
                                        ("valid-rejected",
                                         f"{desc}: a valid write after it "
                                         f"was rejected"))
                                else:
                                    out["rejected"] += 1
                except Exception as e:  # pylint: disable=broad-except
                    out["bad"].append(("exit-fails", f"{desc}: closing the "
                                       f"session raised {type(e).__name__}: "
                                       f"{str(e)[:100]}"))
                    continue
                fresh = Dataset(root)
                for reader in READERS[fmt][:1]:
                    try:
                        got = D.iterate(fresh, "train", reader)
                    except Exception as e:  # pylint: disable=broad-except
                        out["bad"].append(
                            ("undecodable", f"{desc}: reader {reader} fails: "
                             f"{type(e).__name__}: {str(e)[:100]}"))
                        continue
                    if len(got) != len(kept):
                        out["bad"].append(
                            ("count", f"{desc}: reader {reader} yields "
                             f"{len(got)} examples, {len(kept)} writes were "
                             f"accepted"))
                        continue
                    for (kind, v), ex in zip(kept, got):
                        r = np.asarray(ex["a"])
                        if r.shape != ():
                            r = r.reshape(-1)[:1].reshape(())
                        if kind == "ok":
                            if r.astype(dtype).tobytes() != np.asarray(
                                    v).astype(dtype).tobytes():
                                out["bad"].append(
                                    ("neighbour-changed",
                                     f"{desc}: a valid neighbour reads back "
                                     f"as {r.item()!r}, written {v!r}"))
                        elif fmt == "fb" and isinstance(
                                v, (int, float, np.number, np.ndarray)):
                            # the format enforces the dtype: an accepted
                            # value is stored exactly
                            w = v.item() if hasattr(v, "item") else v
                            same = (r.item() == w) or (w != w and
                                                       r.item() != r.item())
                            if not same:
                                out["bad"].append(
                                    ("accepted-altered",
                                     f"{desc}: the write was accepted and "
                                     f"reads back as {r.item()!r}"))
                shutil.rmtree(root, ignore_errors=True)
        return out
    except Exception as e:  # pylint: disable=broad-except
        out["harness"] = f"{type(e).__name__}: {e} " + traceback.format_exc(
        )[-300:]
        return out
    finally:
        shutil.rmtree(box, ignore_errors=True)


def run_scalars(ctx):
    nums = [d for d in DTYPES if d not in ("str", "bytes")]
    tfrec_ok = ("int8", "uint8", "int32", "int64", "float16", "float32")
    cases = [(f, d) for f in ("fb", "npz", "tfrec") for d in nums
             if f != "tfrec" or d in tfrec_ok]
    tot = acc = rej = 0
    with core.pool() as ex:
        for r in ex.map(scalar_case, cases):
            if r.get("harness"):
                ctx.harness_error(str(r))
                continue
            tot += 2 * len(scalar_objects())
            acc += r["accepted"]
            rej += r["rejected"]
            ctx.add(states=2 * len(scalar_objects()),
                    transitions=r["cases"] + r["accepted"] + r["rejected"],
                    traces_validated_against_impl=2 * len(scalar_objects()))
            for sym, msg in r["bad"]:
                ctx.violation(
                    {"engine": "scalars", "fmt": r["fmt"],
                     "dtype": r["dtype"], "symptom": sym},
                    f"{r['fmt']} rank-0 attribute dtype={r['dtype']}: {msg}",
                    {"kind": "scalars", "fmt": r["fmt"],
                     "dtype": r["dtype"]})
    ctx.part("rank-0 attribute x scalar objects (Python / NumPy scalars and "
             "0-d arrays of every kind) x position in the shard",
             sequences=tot, accepted=acc, rejected=rej)


def run_decl(ctx):
    shapes = [(), (2,), (2, 2)]
    cases = [(f, d, s) for f in ("fb", "npz", "tfrec") for d in DTYPES
             for s in shapes]
    acc = rej = 0
    with core.pool() as ex:
        for r in ex.map(decl_case, cases, chunksize=4):
            if r.get("harness"):
                ctx.harness_error(str(r))
                continue
            ctx.add(states=1, transitions=r["accepted"] + r["rejected"],
                    traces_validated_against_impl=1)
            acc += 1 if r["accepted"] else 0
            rej += 0 if r["accepted"] else 1
            for sym, msg in r["bad"]:
                ctx.violation(
                    {"engine": "decl", "fmt": r["fmt"], "dtype": r["dtype"],
                     "symptom": sym},
                    f"{r['fmt']} attribute dtype={r['dtype']} "
                    f"shape={tuple(r['shape'])}: {msg}",
                    {"kind": "decl", "fmt": r["fmt"], "dtype": r["dtype"],
                     "shape": r["shape"]})
    ctx.part("declaration grid", cases=len(cases), accepted_declarations=acc,
             rejected_declarations=rej)


def run(ctx):
    wseq.run_plans(ctx, TAGS, plans(ctx.tier))
    run_decl(ctx)
    run_scalars(ctx)
    ctx.cov["explanation"] = (
        "all sequences (depth per plan) of write_example calls over 16 "
        "kinds of call (valid, list containers, wrong shape at first / "
        "middle / last attribute, wrong rank, scalar, unsafe and foreign "
        "dtypes, missing and extra attributes, wrong container) with "
        "metadata changes interleaved, for fb / npz / tfrec; a call that "
        "violates the declared shape must raise, a valid call must be "
        "accepted, a raising call must leave no trace (decoded content, "
        "counts, no stray shard file, later calls unaffected), after "
        "accepted calls every reader of the format must still decode the "
        "dataset; plus a grid of 14 dtype declarations x 3 shapes x 3 "
        "formats (accepted => decodable)")
    ctx.assumptions[:] = [
        "an accepted write of a foreign dtype is only required to stay "
        "readable, not to return a particular value (that is C01)",
    ]


def replay(case):
    if case.get("kind") == "decl":
        core.import_sedpack_quietly()
        r = decl_case((case["fmt"], case["dtype"], tuple(case["shape"])))
        return [m for _, m in r["bad"]]
    if case.get("kind") == "scalars":
        core.import_sedpack_quietly()
        r = scalar_case((case["fmt"], case["dtype"]))
        return [m for _, m in r["bad"]]
    return wseq.replay_seq(case, TAGS)
