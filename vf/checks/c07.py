"""C07: unreadable shards surface as errors - never a hang, never silent
truncation (fault x configuration x schedule enumeration)."""
from __future__ import annotations

import concurrent.futures as cf
import os
import shutil
import traceback
from pathlib import Path

from vf import core, ds as D, dsfamily, pmap_mc, dataset_mc
from vf.explorer import Explorer, FixedChooser, Divergence

TAGS = {"C07"}
DAMAGES = ("deleted", "emptied", "truncated", "garbage")
RECIPES = {"fb": "c07fb", "npz": "c07npz", "tfrec": "c07tfrec",
           "fbraw": "c07fbraw"}
dsfamily.EXTRA.update({
    "c07fb": ("fb", 2, [("root", [("train", 7), ("test", 1)])]),
    "c07npz": ("npz", 2, [("root", [("train", 7)])]),
    "c07tfrec": ("tfrec", 2, [("root", [("train", 5)])]),
})


def build(root: Path, fmt: str):
    if fmt == "fbraw":  # uncompressed FlatBuffers
        dsfamily.EXTRA["c07fbraw"] = dsfamily.EXTRA["c07fb"]
        ds_, ref = dsfamily.build(root, "c07fbraw", compression="")
    else:
        ds_, ref = dsfamily.build(root, RECIPES[fmt])
    return ds_, ref


def damage(path: Path, kind: str) -> None:
    data = path.read_bytes()
    if kind == "deleted":
        path.unlink()
    elif kind == "emptied":
        path.write_bytes(b"")
    elif kind == "truncated":
        path.write_bytes(data[:-1])
    elif kind == "half":
        path.write_bytes(data[:len(data) // 2])
    elif kind == "garbage":
        path.write_bytes(bytes((i * 37 + 11) & 0xff for i in range(len(data))))
    else:
        raise ValueError(kind)


def decoder_rejects(struct, path: Path) -> bool:
    """Self-calibration: does the format's own single-shard decoder raise?"""
    try:
        list(D.shard_iterator(struct).iterate_shard(path))
        return False
    except Exception:  # pylint: disable=broad-except
        return True


def codec_rejects(struct, path: Path) -> bool:
    if not path.is_file() or path.stat().st_size == 0:
        return True
    try:
        from sedpack.io.compress import CompressedFile
        CompressedFile(struct.compression).decompress(path.read_bytes())
        return False
    except Exception:  # pylint: disable=broad-except
        return True


def os_case(args) -> dict:
    """One (format, damaged shard, damage kind): every interface x shuffle x
    parallelism on the OS schedule, each under a watchdog."""
    fmt, which, kind = args
    root = core.fresh_dir("c07")
    out = {"args": list(args), "bad": [], "cases": 0, "required": 0,
           "skipped": 0, "harness": None}
    try:
        from sedpack.io import Dataset
        _, ref = build(root, fmt)
        ds_ = Dataset(root)
        shards = [ds_.path / s.file_infos[0].file_path
                  for s in ds_.shard_info_iterator("train")]
        idx = {"first": 0, "middle": len(shards) // 2,
               "last": len(shards) - 1}[which]
        target = shards[idx]
        damage(target, kind)
        struct = ds_.dataset_structure
        py_rejects = decoder_rejects(struct, target)
        rs_rejects = (fmt in ("fb", "fbraw")) and (
            kind in ("deleted", "emptied") or codec_rejects(struct, target))
        N = len(ref["train"])
        real_fmt = "fb" if fmt == "fbraw" else fmt
        # independent of the library's own decoder: a missing file, and a
        # zero-length FlatBuffers / npz file, can never be a shard holding
        # the examples that were written (an empty TFRecord file is valid)
        hard = kind == "deleted" or (kind == "emptied" and
                                     real_fmt in ("fb", "npz"))
        hung_ifaces = set()
        for iface in dsfamily.interfaces(real_fmt, with_rust=True):
            required = rs_rejects if iface == "rust" else (py_rejects or
                                                           hard)
            for sh in (0, 3):
                for par in ((1, 2, 6) if iface != "sync" else (None,)):
                    if ((iface, sh) in hung_ifaces or len(hung_ifaces) >= 2
                            or (hung_ifaces and iface == "tf")):
                        # a reader already hung on this damaged shard (it is
                        # reported): the other parallelism values would each
                        # cost another 60 s to say the same, two hung
                        # readers are enough for one dataset, and tf.data on
                        # top of a hanging reader cannot be interrupted at
                        # all (the main thread waits in C++) - the whole
                        # worker would be lost for the per-task limit
                        out["skipped"] += 1
                        continue
                    kw = {"shuffle": sh}
                    if par:
                        kw["file_parallelism"] = par
                    out["cases"] += 1
                    out["required"] += 1 if required else 0
                    desc = (f"{fmt}: shard {idx} ({which}) {kind}; {iface} "
                            f"shuffle={sh} file_parallelism={par}")
                    try:
                        got = D.with_alarm(
                            60, lambda: D.iterate(ds_, "train", iface, **kw))
                        try:
                            same = sorted(D.to_id(e) for e in got) == sorted(
                                ref["train"])
                        except Exception:  # pylint: disable=broad-except
                            same = False
                        # a reader whose codec tolerates the damage and still
                        # returns every example has skipped nothing
                        outcome = ("complete" if same else "ok", len(got))
                    except D.Watchdog:
                        outcome = ("hang", 0)
                    except BaseException as e:  # pylint: disable=broad-except
                        if isinstance(e, (KeyboardInterrupt, SystemExit)):
                            raise
                        outcome = ("raises", type(e).__name__)
                    if outcome[0] == "hang":
                        hung_ifaces.add((iface, sh))
                        out["bad"].append(
                            ({"symptom": "hang", "iface": iface},
                             f"{desc}: no result within 60 s", desc))
                    elif required and outcome[0] == "ok":
                        out["bad"].append(
                            ({"symptom": "silent", "iface": iface,
                              "damage": kind},
                             f"{desc}: the pass ended normally with "
                             f"{outcome[1]} of {N} examples although the "
                             f"decoder rejects the shard", desc))
    except Exception as e:  # pylint: disable=broad-except
        out["harness"] = f"{type(e).__name__}: {e} " + traceback.format_exc(
        )[-400:]
    finally:
        shutil.rmtree(root, ignore_errors=True)
    return out


# ---------------------------------------------------------------------------
# controlled: concurrent reader (lazy pool / executor threads scheduled)
# ---------------------------------------------------------------------------
def controlled_case(args) -> dict:
    fmt, which, kind, bound = args
    root = core.fresh_dir("c07c")
    out = {"args": list(args), "bad": [], "executions": 0, "transitions": 0,
           "harness": []}
    try:
        from sedpack.io import Dataset
        _, ref = build(root, fmt)
        ds_ = Dataset(root)
        shards = [ds_.path / s.file_infos[0].file_path
                  for s in ds_.shard_info_iterator("train")]
        idx = {"first": 0, "middle": len(shards) // 2,
               "last": len(shards) - 1}[which]
        damage(shards[idx], kind)
        if not decoder_rejects(ds_.dataset_structure, shards[idx]):
            return out
        for sh in (0, 2):
            for par in (1, 2, 6):
                cfg = dict(split="train", iface="concurrent", shuffle=sh,
                           par=par)
                viol = []

                def run(ch):
                    return dataset_mc.run_once(ds_, cfg, ch)

                def verdict(r):
                    if r["deadlock"]:
                        return ("deadlock",
                                f"deadlock, blocked={r['blocked']}")
                    if r["exc"] is None:
                        return ("silent",
                                f"pass ended normally with "
                                f"{len(r['got'])} of {len(ref['train'])} "
                                f"examples")
                    return None

                def on_result(choices, r):
                    if r["divergence"]:
                        out["harness"].append(f"{args} {cfg}: DIVERGENCE")
                        return
                    v = verdict(r)
                    if v and len(viol) < 2:
                        v2 = verdict(dataset_mc.run_once(
                            ds_, cfg, FixedChooser(choices)))
                        if v2 == v:
                            viol.append((v, choices))
                        else:
                            out["harness"].append(
                                f"NONDETERMINISM {args} {cfg}")

                ex = Explorer(run, bound=bound, cache=False,
                              max_executions=20000)
                try:
                    ex.explore(on_result)
                except Divergence as d:
                    out["harness"].append(f"{args} {cfg}: {d}")
                out["executions"] += ex.executions
                out["transitions"] += ex.transitions
                for (sym, msg), choices in viol:
                    out["bad"].append(
                        ({"symptom": sym, "iface": "concurrent",
                          "controlled": True, "shuffled": bool(sh)},
                         f"{fmt}: shard {idx} ({which}) {kind}; concurrent "
                         f"shuffle={sh} file_parallelism={par} under the "
                         f"cooperative scheduler: {msg}",
                         {"cfg": cfg, "choices": choices}))
    except Exception as e:  # pylint: disable=broad-except
        out["harness"].append(f"{type(e).__name__}: {e} " +
                              traceback.format_exc()[-400:])
    finally:
        shutil.rmtree(root, ignore_errors=True)
    return out


from vf.core import run_with_watchdog  # noqa: E402


def run(ctx):
    from vf import rustbuild
    rustbuild.ensure_ext()
    rustbuild.ensure_pmap()
    # (1) Rust parallel map with a failing item, every completion order
    pcfgs = []
    if ctx.tier == "thorough":
        for T in (1, 2, 3, 4):
            for n in range(1, 6):
                for p in range(n):
                    pcfgs.append(dict(n=n, T=T, p=p))
    else:
        for T in (1, 2, 3):
            for n in range(1, 5):
                for p in range(n):
                    pcfgs.append(dict(n=n, T=T, p=p))
        pcfgs += [dict(n=6, T=4, p=0, bound=2), dict(n=6, T=4, p=5, bound=2)]
    with cf.ThreadPoolExecutor(max_workers=6) as tp:
        pres = list(tp.map(pmap_mc.explore_config, pcfgs))
    npm = 0
    for r in pres:
        npm += r["executions"]
        for h in r["harness"]:
            ctx.harness_error(h)
        for v in r["violations"]:
            if v["prop"] == "C07":
                ctx.violation({"engine": "gates", "symptom": v["sym"],
                               "iface": "rust"}, v["msg"],
                              {"kind": "pmap", "cfg": r["cfg"],
                               "choices": v["choices"]})
    ctx.part("Rust parallel_map with a panicking item: every completion "
             "order", configurations=len(pcfgs), executions=npm)
    ctx.add(evaluations=npm, distinct_nontrivial=npm)
    # (2) controlled concurrent reader
    bound = 2 if ctx.tier == "thorough" else 1
    ctasks = [(f, w, k, bound) for f in ("fb", "npz")
              for w in ("first", "middle", "last")
              for k in (("deleted", "truncated") if ctx.tier == "quick"
                        else DAMAGES)]
    with core.pool() as ex:
        ne = 0
        for r in ex.map(controlled_case, ctasks):
            for h in r["harness"]:
                ctx.harness_error(h)
            ne += r["executions"]
            for sig, msg, case in r["bad"]:
                ctx.violation(dict(sig, engine="dataset_mc"), msg,
                              {"kind": "controlled", "args": r["args"],
                               **case})
    ctx.part("concurrent reader under the cooperative scheduler (lazy pool "
             f"and executor threads), deviation bound {bound}",
             cases=len(ctasks), executions=ne)
    ctx.add(evaluations=ne, distinct_nontrivial=ne)
    # (3) every interface on the OS schedule with a watchdog
    fmts = ("fb", "fbraw", "npz", "tfrec")
    otasks = [(f, w, k) for f in fmts for w in ("first", "middle", "last")
              for k in DAMAGES]
    if ctx.tier == "thorough":
        otasks += [(f, w, "half") for f in fmts for w in ("first", "last")]
    # one wave per damaged position (every format x damage kind in each); a
    # wave in which passes hung ends the part: every hang costs its 60 s
    # watchdog, the finding is already made, and the check has to answer in
    # minutes on a tree that hangs too (the cap is reported, never silent)
    otasks.sort(key=lambda t: ("first", "middle", "last").index(t[1]))
    tot = req = skipped = done = nhang = 0
    waves = [[t for t in otasks if t[1] == w]
             for w in ("first", "middle", "last")]
    for wave in waves:
        for t, r in run_with_watchdog(os_case, wave, 300, ctx,
                                      stop_after_hang=True):
            done += 1
            nhang += bool(r.get("hung"))
            if r["harness"]:
                ctx.harness_error(f"{t}: {r['harness']}")
                continue
            tot += r["cases"]
            req += r["required"]
            skipped += r.get("skipped", 0)
            for sig, msg, case in r["bad"]:
                nhang += (sig.get("symptom") == "hang" and
                          not r.get("hung"))
                ctx.violation(dict(sig, engine="dataset", fmt=t[0]), msg,
                              {"kind": "os", "args": r["args"],
                               "desc": case})
        if nhang:
            break
    capped = done < len(otasks) or skipped
    ctx.part("damaged shard x interface x shuffle x file_parallelism on the "
             "OS schedule (60 s watchdog each)", datasets=len(otasks),
             datasets_run=done, passes=tot, passes_required_to_raise=req,
             passes_skipped_after_a_hang_of_the_same_reader=skipped,
             stopped_after_hangs=nhang if capped else 0)
    ctx.add(evaluations=tot, distinct_nontrivial=tot)
    ctx.sample({"format": "fb", "damaged": "middle shard deleted",
                "interface": "concurrent shuffle=3 file_parallelism=2",
                "oracle": "exception reaches the consumer; no deadlock in "
                          "any schedule; no normal end"})
    ctx.cov["rule"] = (
        "case = (format incl. uncompressed fb, damaged shard first/middle/"
        "last, damage deleted/emptied/truncated by one byte/garbage, "
        "interface, shuffle on/off, file_parallelism 1/2/>n); a pass is "
        "required to raise iff the format's own single-shard decoder (for "
        "the Rust reader: the codec / an absent or empty file) rejects the "
        "damaged file; schedules: lazy-pool and executor threads under the "
        "cooperative scheduler (deadlock exact), Rust parallel map under "
        "every completion order with a panicking item, everything else on "
        "the OS schedule with a watchdog")
    ctx.cov["exhaustive"] = not capped
    if capped:
        ctx.cov["cap"] = (
            f"OS-schedule part stopped after {nhang} hung passes (all "
            f"reported as violations): {done} of {len(otasks)} damaged "
            f"datasets run, {skipped} passes of an already hung reader "
            "skipped")
    ctx.assumptions[:] = [
        "requirement: a deleted shard, and an emptied fb / npz shard, must "
        "raise in every Python reader regardless of what the library's "
        "decoder does; for truncation and garbage the requirement is "
        "self-calibrated (damage that the library's decoder accepts is not "
        "demanded to raise)",
        "tf.data and async readers: OS schedule only",
    ]


def replay(case):
    k = case["kind"]
    if k == "pmap":
        return [m for m in pmap_mc.replay_case(case["cfg"], case["choices"])]
    core.import_sedpack_quietly()
    if k == "controlled":
        a = case["args"]
        r = controlled_case((a[0], a[1], a[2], a[3]))
        return [m for _, m, _ in r["bad"]]
    r = os_case(tuple(case["args"]))
    return [m for s, m, c in r["bad"] if c == case.get("desc")]
