"""C17: paths taken from metadata cannot escape the dataset directory."""
from __future__ import annotations

import hashlib
import itertools
import json
import os
import shutil
import sys
import traceback
from pathlib import Path

from vf import core, ds as D

_AUD = {"on": False, "sandbox": "", "root": "", "hits": []}
_HOOKED = False
WATCH = {"open", "os.mkdir", "os.rename", "os.remove", "os.rmdir",
         "os.link", "os.symlink", "os.truncate", "shutil.copyfile"}


def _audit(event, args):
    if not _AUD["on"] or event not in WATCH:
        return
    for a in args[:2]:
        if isinstance(a, bytes):
            a = a.decode(errors="ignore")
        if isinstance(a, (str, os.PathLike)):
            try:
                p = os.path.realpath(os.fspath(a))
            except (OSError, ValueError):
                continue
            if p.startswith(_AUD["sandbox"]) and not (
                    p == _AUD["root"] or p.startswith(_AUD["root"] + "/")):
                _AUD["hits"].append((event, p))


def hook():
    global _HOOKED
    if not _HOOKED:
        sys.addaudithook(_audit)
        _HOOKED = True


class Outside:
    """inotify on the directory outside the root (native readers)."""
    MASK = 0x20 | 0x100 | 0x1 | 0x2 | 0x80 | 0x40  # OPEN CREATE ACCESS MODIFY MOVED

    def __init__(self, d: Path) -> None:
        import ctypes
        self.libc = ctypes.CDLL("libc.so.6", use_errno=True)
        self.fd = self.libc.inotify_init1(os.O_NONBLOCK)
        for x in [d] + [p for p in d.rglob("*") if p.is_dir()]:
            self.libc.inotify_add_watch(self.fd, str(x).encode(), self.MASK)

    def events(self) -> int:
        n = 0
        while True:
            try:
                buf = os.read(self.fd, 65536)
            except BlockingIOError:
                break
            i = 0
            while i < len(buf):
                ln = int.from_bytes(buf[i + 12:i + 16], "little")
                mask = int.from_bytes(buf[i + 4:i + 8], "little")
                if not mask & 0x40000000 or mask & 0x100:  # not a dir open
                    n += 1
                i += 16 + ln
        return n

    def close(self):
        os.close(self.fd)


COMPONENTS = ("a", ".", "..", "", "shards_list.json", "x.fb")


def path_strings(maxlen: int, canary: Path, real: dict) -> list[str]:
    out = []
    for k in range(1, maxlen + 1):
        for comb in itertools.product(COMPONENTS, repeat=k):
            s = "/".join(comb)
            out.append(s)
            out.append("/" + s)
    out += [s + "/" for s in out[:40]]
    out += ["/" + s for s in out if s.startswith("/") and
            not s.startswith("//")]  # POSIX keeps exactly two leading slashes
    # absolute paths to existing files outside the root (also spelled with
    # two and three leading slashes)
    absolute = [str(canary / "x.fb"), str(canary / "shards_list.json"),
                str(canary / "sub" / "shards_list.json"), str(canary),
                str(canary / "new" / "shards_list.json")]
    out += absolute + ["/" + a for a in absolute] + ["//" + a
                                                     for a in absolute]
    # the same dangerous strings written with backslashes (a single harmless
    # component on POSIX - unless somebody "normalises" Windows paths)
    out += [s.replace("/", "\\") for s in list(out)
            if (".." in s.split("/") or s.startswith("/")) and len(s) > 2]
    out += [("root-relative", a) for a in ()]  # (placeholder, keeps indices)
    rel_up = "train/../../outside/"
    out += [(rel_up + t).replace("/", "\\")
            for t in ("x.fb", "shards_list.json")]
    out += ["..\\..\\outside", "x\\..\\..\\outside\\shards_list.json"]
    out += [a.replace("/outside/", "/outside/./") for a in absolute[:2]]
    out += [a.replace("/outside/", "/root/../outside/") for a in absolute[:2]]
    # spellings that only escape after some helpful normalisation: home /
    # environment expansion (HOME points at the sandbox), stripped blanks
    # or control characters, percent-encoding, file: URLs
    for tail in ("x.fb", "shards_list.json"):
        out += [f"~/outside/{tail}", f"$HOME/outside/{tail}",
                "${HOME}" + f"/outside/{tail}",
                f" ../outside/{tail}", f"../outside/{tail} ",
                f"..\t/outside/{tail}", f"\t../outside/{tail}",
                f"%2e%2e/outside/{tail}", f"..%2foutside%2f{tail}",
                f"file://{canary}/{tail}", f"file:{canary}/{tail}",
                f".. /outside/{tail}"]
    # plain relative spellings of the EXISTING files outside (a native
    # reader that opens a missing file leaves no trace; an existing one is
    # seen by inotify)
    for up in ("..", "train/../..", "./..", "a/../..", "train/x/../../.."):
        for tail in ("x.fb", "shards_list.json", "sub/shards_list.json"):
            out.append(f"{up}/outside/{tail}")
    # siblings of the root whose NAME starts with the root's name (a
    # containment test on strings instead of path components lets them in);
    # relative to the root and relative to a split directory
    rn = Path(real["rootname"]).name
    for sib in (rn + "2", rn + "_backup", rn + ".old"):
        for up in ("..", "../..", "train/../..", "a/../../.."):
            for tail in ("", "/x.fb", "/shards_list.json", "/train",
                         "/train/shards_list.json"):
                out.append(f"{up}/{sib}{tail}")
    # compatibility characters that Unicode normalisation (NFKC/NFKD) turns
    # into '..' and '/': two-dot leader, one-dot leaders, fullwidth stops,
    # fullwidth solidus, division slash
    for dd in ("\u2025", "\u2024\u2024", "\uff0e\uff0e"):
        for tail in ("outside/x.fb", "outside/shards_list.json",
                     "outside/sub/shards_list.json"):
            out.append(f"{dd}/{tail}")
            out.append(f"train/{dd}/{dd}/{tail}")
            out.append(f"..\uff0f{tail}")
            out.append(f"{dd}\uff0f{tail.replace('/', chr(0xff0f))}")
            out.append(f"..\u2215{tail}")
    # paths through the real names that normalise inside the root
    for r in real.values():
        p = Path(r)
        out += [str(p.parent / "." / p.name), str(p.parent) + "//" + p.name,
                str(p.parent / "x" / ".." / p.name),
                "../" + Path(real["rootname"]).name + "/" + r,
                str(Path(real["rootdir"]) / r)]
    seen, uniq = set(), []
    for s in out:
        if s not in seen:
            seen.add(s)
            uniq.append(s)
    return uniq


def sha(p: Path) -> str:
    return hashlib.sha256(p.read_bytes()).hexdigest()


def build_sandbox(sandbox: Path):
    """root: a valid nested dataset; outside: canary files (a valid shard, a
    valid list) next to it."""
    from sedpack.io.dataset_filler import DatasetFiller
    root = sandbox / "root"
    ds_ = D.create(root, fmt="fb", eps=2, compression="")
    with ds_.filler() as f:
        for q in range(3):
            f.write_example(values=D.example((0, 0, q)), split="train")
    with DatasetFiller(ds_, relative_path_from_split=Path("x")) as f:
        for q in range(2):
            f.write_example(values=D.example((1, 0, q)), split="train")
    out = sandbox / "outside"
    (out / "sub").mkdir(parents=True)
    trainlist = D.load_json(root / "train" / "shards_list.json")
    shard = trainlist["shard_files"][0]["file_infos"][0]["file_path"]
    shutil.copy(root / shard, out / "x.fb")
    shutil.copy(root / "train" / "x" / "shards_list.json",
                out / "shards_list.json")
    shutil.copy(root / "train" / "x" / "shards_list.json",
                out / "sub" / "shards_list.json")
    (out / "canary.txt").write_text("canary")
    return root, out, {"shard": shard,
                       "child": "train/x/shards_list.json",
                       "split": "train/shards_list.json",
                       "rootname": str(root), "rootdir": str(root)}


def inject(root: Path, pristine: dict, field: str, s: str) -> None:
    """Write the pristine dataset back and replace one path-valued field."""
    for rel, data in pristine.items():
        p = root / rel
        if not p.is_file() or p.read_bytes() != data:
            p.parent.mkdir(parents=True, exist_ok=True)
            p.write_bytes(data)
    for p in list(root.rglob("*")):
        if p.is_file() and str(p.relative_to(root)) not in pristine:
            p.unlink()
    tl = root / "train" / "shards_list.json"
    doc = json.loads(tl.read_text())
    info_p = root / "dataset_info.json"
    info = json.loads(info_p.read_text())
    if field == "shard":
        doc["shard_files"][0]["file_infos"][0]["file_path"] = s
    elif field == "child":
        doc["children_shard_lists"][0]["shard_list_info_file"][
            "file_path"] = s
    elif field == "self":
        doc["relative_path_self"] = s
    elif field == "split":
        info["splits"]["train"]["shard_list_info_file"]["file_path"] = s
    if field in ("shard", "child", "self"):
        tl.write_text(json.dumps(doc, indent=2))
        info["splits"]["train"]["shard_list_info_file"]["hash_checksums"] = [
            sha(tl)
        ]
    info_p.write_text(json.dumps(info, indent=2))


def exercise(root: Path, with_native: bool) -> list[str]:
    """Open, check, iterate (every interface) and write; returns the names of
    the steps that completed without raising."""
    from sedpack.io import Dataset
    done = []
    try:
        ds_ = Dataset(root)
        done.append("open")
    except Exception:  # pylint: disable=broad-except
        return done
    try:
        ds_.check(show_progressbar=False)
        done.append("check")
    except Exception:  # pylint: disable=broad-except
        pass
    ifaces = ["sync", "concurrent", "async"] + (["rust", "tf"]
                                                if with_native else [])
    for iface in ifaces:
        try:
            D.with_alarm(60, lambda: D.iterate(ds_, "train", iface))
            done.append(iface)
        except (KeyboardInterrupt, SystemExit):
            raise
        except BaseException:  # pylint: disable=broad-except
            pass  # incl. the PanicException of the Rust reader
    try:
        with ds_.filler() as f:
            f.write_example(values=D.example((9, 0, 0)), split="train")
        done.append("write")
    except Exception:  # pylint: disable=broad-except
        pass
    return done


def _names_outside_file(root: Path, s: str) -> bool:
    import unicodedata
    import urllib.parse
    cands = {s, s.replace("\\", "/"), unicodedata.normalize("NFKC", s),
             os.path.expandvars(os.path.expanduser(s)), s.strip(),
             s.replace("\t", "").replace(" ", ""),
             urllib.parse.unquote(s)}
    if s.startswith("file:"):
        cands.add(s[5:].lstrip("/").join(["/", ""]) if False else
                  "/" + s[5:].lstrip("/"))
    for v in cands:
        try:
            p = os.path.normpath(os.path.join(str(root), v))
        except (TypeError, ValueError):
            continue
        if os.path.isfile(p) and not (p + "/").startswith(str(root) + "/"):
            return True
    return False


def case_chunk(args) -> dict:
    field, idxs, maxlen, with_native = args
    hook()
    sandbox = core.fresh_dir("c17")
    out = {"field": field, "bad": [], "cases": 0, "accepted": 0,
           "harness": None}
    try:
        root, outside, real = build_sandbox(sandbox)
        pristine = D.snapshot(root)
        outside_pristine = D.snapshot(outside)
        strings = path_strings(maxlen, outside, real)
        _AUD.update(sandbox=os.path.realpath(sandbox),
                    root=os.path.realpath(root))
        os.environ["HOME"] = str(sandbox)  # for '~' and $HOME spellings
        for i in idxs:
            if i >= len(strings):
                continue
            s = strings[i]
            out["cases"] += 1
            if field == "filler":
                from sedpack.io import Dataset
                from sedpack.io.dataset_filler import DatasetFiller
                inject(root, pristine, "none", "")
                _AUD["hits"] = []
                _AUD["on"] = True
                steps = []
                try:
                    ds_ = Dataset(root)
                    with DatasetFiller(
                            ds_, relative_path_from_split=Path(s)) as f:
                        f.write_example(values=D.example((8, 0, 0)),
                                        split="train")
                    steps = ["write"]
                except Exception:  # pylint: disable=broad-except
                    pass
                finally:
                    _AUD["on"] = False
            else:
                inject(root, pristine, field, s)
                # native readers (Rust, tf.data) for a slice of the strings
                # and for every string that names an existing file outside
                wn = with_native or (field in ("shard", "child") and
                                     _names_outside_file(root, s))
                watcher = Outside(outside) if wn else None
                _AUD["hits"] = []
                _AUD["on"] = True
                try:
                    steps = exercise(root, wn)
                finally:
                    _AUD["on"] = False
                if watcher:
                    n = watcher.events()
                    watcher.close()
                    if n and not _AUD["hits"]:
                        _AUD["hits"].append(("native-access",
                                             f"{n} inotify events"))
            out["accepted"] += 1 if steps else 0
            now = D.snapshot(outside)
            created = sorted(set(now) - set(outside_pristine))
            changed = [k for k in outside_pristine
                       if now.get(k) != outside_pristine[k]]
            others = [p for p in sandbox.iterdir()
                      if p.name not in ("root", "outside")]
            if _AUD["hits"] or created or changed or others:
                what = (f"accessed {sorted(set(_AUD['hits']))[:3]}"
                        if _AUD["hits"] else "") + (
                            f" created {created}" if created else "") + (
                                f" modified {changed}" if changed else "") + (
                                    f" created {others}" if others else "")
                out["bad"].append(
                    ({"field": field,
                      "absolute": s.startswith("/"),
                      "dotdot": ".." in s.split("/")},
                     f"path {s!r} in field '{field}': steps {steps} "
                     f"completed and files outside the dataset root were "
                     f"touched:{what}",
                     {"field": field, "string": s}))
                for p in others:
                    shutil.rmtree(p, ignore_errors=True)
                for k in created:
                    (outside / k).unlink(missing_ok=True)
                for k in changed:
                    (outside / k).write_bytes(outside_pristine[k])
    except Exception as e:  # pylint: disable=broad-except
        out["harness"] = f"{type(e).__name__}: {e} " + traceback.format_exc(
        )[-500:]
    finally:
        _AUD["on"] = False
        shutil.rmtree(sandbox, ignore_errors=True)
    return out


FIELDS = ("shard", "child", "self", "split", "filler")


def run(ctx):
    from vf import rustbuild
    rustbuild.ensure_ext()
    maxlen = 4 if ctx.tier == "thorough" else 3
    n_strings = len(path_strings(maxlen, Path("/dev/shm/x/outside"),
                                 {"shard": "train/a.fb",
                                  "child": "train/x/shards_list.json",
                                  "split": "train/shards_list.json",
                                  "rootname": "/dev/shm/x/root",
                                  "rootdir": "/dev/shm/x/root"}))
    tasks = []
    for field in FIELDS:
        step = 40
        for a in range(0, n_strings, step):
            idxs = list(range(a, min(n_strings, a + step)))
            # native readers (Rust / tf.data) for a slice of the strings
            native = field in ("shard", "child") and (a // step) % 4 == 0
            tasks.append((field, idxs, maxlen, native))
    with core.pool() as ex:
        tot = acc = 0
        for r in ex.map(case_chunk, tasks):
            if r["harness"]:
                ctx.harness_error(f"{r['field']}: {r['harness']}")
                continue
            tot += r["cases"]
            acc += r["accepted"]
            for sig, msg, case in r["bad"]:
                ctx.violation(dict(sig, engine="paths"), msg,
                              dict(case, maxlen=maxlen))
    ctx.part("path strings x path-valued fields", strings=n_strings,
             fields=list(FIELDS), cases=tot, cases_loaded_or_partly_run=acc)
    ctx.add(evaluations=tot, distinct_nontrivial=tot)
    ctx.sample({"field": "shard", "string": "a/../x.fb"})
    ctx.sample({"field": "child", "string": "/…/outside/shards_list.json"})
    ctx.cov["rule"] = (
        "case = (path-valued field, path string); strings = all sequences "
        f"of <= {maxlen} components over {list(COMPONENTS)} with and "
        "without a leading '/', doubled/trailing separators, absolute paths "
        "to existing canary files outside the root, and spellings of the "
        "real paths that normalise inside the root; fields = shard "
        "file_path, child list path, relative_path_self, split list path "
        "in the description, and the filler's sub-directory argument; for "
        "each case open, check(), every iterator and a writing session "
        "run; oracle = Python audit events (open/mkdir/rename/...) + "
        "inotify on the outside directory + directory diff: nothing "
        "outside the root may be read, created or changed")
    ctx.cov["exhaustive"] = True
    ctx.assumptions[:] = [
        "symbolic links inside the dataset are out of scope (the property "
        "speaks about path strings)",
        "Rust / tf.data readers exercised for a quarter of the strings of "
        "the shard and child fields (inotify on the outside directory)",
    ]


def replay(case):
    core.import_sedpack_quietly()
    maxlen = case.get("maxlen", 3)
    strings = path_strings(maxlen, core.scratch() / "c171" / "outside", {
        "shard": "train/a.fb", "child": "train/x/shards_list.json",
        "split": "train/shards_list.json", "rootname": "/r", "rootdir": "/r"})
    out = []
    # the sandbox path differs per run: re-run the whole field and filter
    n = len(strings) + 60
    for a in range(0, n, 40):
        r = case_chunk((case["field"], list(range(a, a + 40)), maxlen, False))
        out += [m for s, m, c in r["bad"]
                if c["string"].split("/")[-1] == case["string"].split(
                    "/")[-1] and c["string"].startswith("/") == case[
                        "string"].startswith("/")]
    return out[:5]
