"""C20: reopening / relocating restores the dataset; newer formats refused."""
from __future__ import annotations

import itertools
import json

import numpy as np
import os
import shutil
import traceback
from pathlib import Path

from vf import core, ds as D, opseq

ATOMS = ["", "é", "a b", 0, -1, 2**53 + 1, 1.5, 1e308, True, False, None, [],
         {}]
FB_COMP = ("", "BZ2", "GZIP", "LZMA", "LZ4", "ZLIB", "ZSTD")
NPZ_COMP = ("ZIP", "")
TFREC_COMP = ("GZIP", "ZLIB", "")
ALGOS = ("md5", "sha1", "sha224", "sha256", "sha384", "sha512", "sha3_224",
         "sha3_256", "sha3_384", "sha3_512", "xxh32", "xxh64", "xxh128")


def json_values(tier: str) -> list:
    """JSON values of depth <= 2 over the atoms."""
    vals = list(ATOMS)
    vals += [[a] for a in ATOMS]
    vals += [{"k": a} for a in ATOMS]
    vals += [[a, b] for a, b in zip(ATOMS, ATOMS[1:] + ATOMS[:1])]
    vals += [{"é k": a, "": b} for a, b in zip(ATOMS, ATOMS[3:] + ATOMS[:3])]
    if tier == "thorough":
        vals += [[[a]] for a in ATOMS] + [{"k": [a, {"z": a}]} for a in ATOMS]
        vals += [[a, b] for a, b in itertools.product(ATOMS[:6], ATOMS[6:])]
    else:
        vals += [[[a]] for a in ATOMS[:5]] + [{"k": [a, {"z": a}]}
                                               for a in ATOMS[5:9]]
    return vals


def descriptions(tier: str) -> list[dict]:
    """Each: fmt, compression, hashes, md (dataset custom metadata), amd
    (attribute custom metadata), smd (shard custom metadata), text."""
    out = []
    base = dict(fmt="fb", compression="LZ4", hashes=("sha256",), md={},
                amd={}, smd=None, text="plain", eps=2)
    for fmt, comps in (("fb", FB_COMP), ("npz", NPZ_COMP),
                       ("tfrec", TFREC_COMP)):
        for c in comps:
            out.append(dict(base, fmt=fmt, compression=c))
    fam = [(), ("md5",), ALGOS, tuple(reversed(ALGOS)), ("xxh32", "xxh128"),
           ("sha256", "sha256"), ("sha3_512", "sha1", "xxh64")]
    fam += [(a,) for a in ALGOS]
    for hs in fam:
        out.append(dict(base, hashes=hs))
    for i, v in enumerate(json_values(tier)):
        where = ("md", "amd", "smd")[i % 3]
        d = dict(base)
        d[where] = {"key": v}
        if i % 5 == 0:  # all three levels at once
            d.update(md={"key": v}, amd={"é": v}, smd={"s": v})
        out.append(d)
    for text in ("", "ünïcødé ✓ 日本語", "line\nbreak\ttab \"quoted\" \\",
                 " lead/trail ", "\u0000nul"):
        out.append(dict(base, text=text))
    # default-valued and non-default fields
    out.append(dict(base, eps=256, compression="GZIP", fmt="tfrec"))
    out.append(dict(base, eps=1))
    out.append(dict(base, text="1.0.0", md={"sedpack_version": "9.9.9"}))
    return out


def roundtrip_case(args) -> dict:
    descs, = args
    from sedpack.io import Dataset, Metadata
    from sedpack.io.metadata import Attribute, DatasetStructure
    out = {"bad": [], "cases": 0, "harness": None}
    for d in descs:
        root = core.fresh_dir("c20")
        try:
            out["cases"] += 1
            meta = Metadata(description=d["text"],
                            # falsy but non-default values included
                            dataset_license=d["text"],
                            dataset_version="2.3.4" if d["text"] else "",
                            download_from=d["text"],
                            custom_metadata=json.loads(json.dumps(d["md"])))
            struct = DatasetStructure(
                saved_data_description=[
                    Attribute(name="id", dtype="int64", shape=(3,),
                              custom_metadata=json.loads(json.dumps(
                                  d["amd"]))),
                    Attribute(name="v", dtype="float32", shape=(2,)),
                    Attribute(name="z", dtype="uint8", shape=()),  # rank 0
                ],
                compression=d["compression"],
                examples_per_shard=d["eps"],
                shard_file_type=d["fmt"],
                hash_checksum_algorithms=tuple(d["hashes"]),
            )
            want_meta = meta.model_copy(deep=True)
            want_struct = struct.model_copy(deep=True)
            try:
                kept = Dataset.create(path=root, metadata=meta,
                                      dataset_structure=struct)
                with kept.filler() as f:
                    for q in range(3):
                        f.write_example(
                            values=dict(D.example((0, 0, q)),
                                        z=np.uint8(q)), split="train",
                            custom_metadata=json.loads(json.dumps(d["smd"]))
                            if d["smd"] else None)
            except Exception as e:  # pylint: disable=broad-except
                out["bad"].append(
                    ("write-fails", f"description {short(d)}: writing "
                     f"raised {type(e).__name__}: {str(e)[:150]}", d))
                continue
            try:
                fresh = Dataset(root)
            except Exception as e:  # pylint: disable=broad-except
                out["bad"].append(
                    ("reopen-fails", f"description {short(d)}: Dataset(path) "
                     f"raised {type(e).__name__}: {str(e)[:150]}", d))
                continue
            if fresh.metadata != want_meta:
                out["bad"].append(
                    ("metadata", f"description {short(d)}: metadata after "
                     f"reopen {fresh.metadata!r} != written {want_meta!r}",
                     d))
            if fresh.dataset_structure != want_struct:
                out["bad"].append(
                    ("structure", f"description {short(d)}: structure after "
                     f"reopen differs: {fresh.dataset_structure!r} vs "
                     f"{want_struct!r}", d))
            # == cannot tell True from 1 or 1 from 1.0: compare the JSON text
            def strict(x):
                return json.dumps(x, sort_keys=True, ensure_ascii=False)

            if strict(fresh.metadata.custom_metadata) != strict(d["md"]):
                out["bad"].append(
                    ("metadata-types", f"description {short(d)}: dataset "
                     f"custom metadata reads back as "
                     f"{strict(fresh.metadata.custom_metadata)[:120]}", d))
            if strict(fresh.dataset_structure.saved_data_description[0]
                      .custom_metadata) != strict(d["amd"]):
                out["bad"].append(
                    ("metadata-types", f"description {short(d)}: attribute "
                     f"custom metadata reads back as " + strict(
                         fresh.dataset_structure.saved_data_description[0]
                         .custom_metadata)[:120], d))
            for s_ in fresh.shard_info_iterator("train"):
                if d["smd"] and strict(s_.custom_metadata) != strict(
                        d["smd"]):
                    out["bad"].append(
                        ("metadata-types", f"description {short(d)}: shard "
                         f"custom metadata reads back as "
                         f"{strict(s_.custom_metadata)[:120]}", d))
                    break
            if strict(fresh._dataset_info.model_dump(mode="json")) != strict(
                    kept._dataset_info.model_dump(mode="json")):
                out["bad"].append(
                    ("description", f"description {short(d)}: reopened "
                     f"description differs from the writer's (strict "
                     f"comparison)", d))
            if fresh._dataset_info != kept._dataset_info:
                out["bad"].append(
                    ("description", f"description {short(d)}: reopened "
                     f"description differs from the writer's", d))
            k = [s.model_dump() for s in kept.shard_info_iterator("train")]
            r = [s.model_dump() for s in fresh.shard_info_iterator("train")]
            if k != r or (d["smd"] and any(
                    s["custom_metadata"] != d["smd"] for s in r)):
                out["bad"].append(
                    ("shard-metadata", f"description {short(d)}: shard "
                     f"entries after reopen {r} (written custom_metadata "
                     f"{d['smd']})", d))
            try:
                fresh.check(show_progressbar=False)
                ids = D.ids(fresh, "train", "sync")
                if ids != [(0, 0, 0), (0, 0, 1), (0, 0, 2)]:
                    raise ValueError(f"content {ids}")
            except Exception as e:  # pylint: disable=broad-except
                out["bad"].append(
                    ("unusable", f"description {short(d)}: reopened dataset "
                     f"does not verify/iterate: {type(e).__name__}: "
                     f"{str(e)[:120]}", d))
        except Exception as e:  # pylint: disable=broad-except
            out["harness"] = f"{type(e).__name__}: {e} " + \
                traceback.format_exc()[-400:]
        finally:
            shutil.rmtree(root, ignore_errors=True)
    return out


def short(d: dict) -> str:
    return json.dumps({k: d[k] for k in ("fmt", "compression", "hashes", "md",
                                         "amd", "smd", "text", "eps")},
                      ensure_ascii=False, default=str)[:260]


# ---------------------------------------------------------------------------
EDIT_PAIRS = [(1, True), (True, 1), (0, False), (2, 2.0), (2.0, 2),
              (0.0, -0.0), ([0, 1], [False, True]), ({"a": 1}, {"a": 1.0}),
              ("1", 1), (None, False), ([], {}), (1, 2), ("a", "a ")]


def edit_case(args) -> dict:
    """A later writer changes one custom-metadata value (possibly only its
    type) and saves without writing examples: a fresh open must reconstruct
    what that writer held."""
    level, style, save = args
    from sedpack.io import Dataset, Metadata
    out = {"bad": [], "cases": 0, "harness": None}

    def strict(x):
        return json.dumps(x, sort_keys=True, ensure_ascii=False)

    for v1, v2 in EDIT_PAIRS:
        root = core.fresh_dir("c20e")
        try:
            out["cases"] += 1
            from sedpack.io.metadata import Attribute, DatasetStructure
            md = {"k": v1, "other": "x"}
            struct = DatasetStructure(
                saved_data_description=[
                    Attribute(name="id", dtype="int64", shape=(3,),
                              custom_metadata=json.loads(json.dumps(md))
                              if level == "attribute" else {}),
                    Attribute(name="v", dtype="float32", shape=(2,))],
                examples_per_shard=2, shard_file_type="fb",
                hash_checksum_algorithms=("md5",))
            ds_ = Dataset.create(
                path=root, dataset_structure=struct, metadata=Metadata(
                    description="d", custom_metadata=json.loads(
                        json.dumps(md)) if level == "dataset" else {}))
            with ds_.filler() as f:
                for q in range(3):
                    f.write_example(values=D.example((0, 0, q)),
                                    split="train")
            del ds_
            w = Dataset(root)
            new = {"k": v2, "other": "x"}
            if level == "dataset":
                if style == "in-place":
                    w.metadata.custom_metadata["k"] = v2
                else:
                    w.metadata = Metadata(description="d",
                                          custom_metadata=new)
            else:
                attr = w.dataset_structure.saved_data_description[0]
                if style == "in-place":
                    attr.custom_metadata["k"] = v2
                else:
                    attr.custom_metadata = new
            desc = (f"{level}-level custom metadata value {v1!r} changed to "
                    f"{v2!r} ({style}) and saved by {save}")
            try:
                if save == "write_config":
                    w.write_config(updated_infos=[])
                else:
                    with w.filler():
                        pass
            except Exception as e:  # pylint: disable=broad-except
                out["bad"].append(("edit-fails", f"{desc}: "
                                   f"{type(e).__name__}: {str(e)[:120]}",
                                   list(args)))
                continue
            held = strict(w.metadata.custom_metadata if level == "dataset"
                          else w.dataset_structure.saved_data_description[0]
                          .custom_metadata)
            fresh = Dataset(root)
            got = strict(fresh.metadata.custom_metadata if level == "dataset"
                         else fresh.dataset_structure
                         .saved_data_description[0].custom_metadata)
            if got != held:
                out["bad"].append(
                    ("edit-lost", f"{desc}: the writer held {held}, a fresh "
                     f"open reads {got}", list(args)))
            n = len(D.ids(fresh, "train", "sync"))
            if n != 3:
                out["bad"].append(("content", f"{desc}: {n} of 3 examples "
                                   f"after the edit", list(args)))
        except Exception as e:  # pylint: disable=broad-except
            out["harness"] = f"{type(e).__name__}: {e} " + \
                traceback.format_exc()[-300:]
        finally:
            shutil.rmtree(root, ignore_errors=True)
    return out


# ---------------------------------------------------------------------------
def relocation_case(args) -> dict:
    fmt, target_name, how, open_by = args
    out = {"bad": [], "cases": 1, "harness": None}
    box = core.fresh_dir("c20r")
    cwd = os.getcwd()
    try:
        from sedpack.io import Dataset
        from sedpack.io.dataset_filler import DatasetFiller
        src = box / "orig" / "ds"
        fmt, hashes, _ = opseq.split_fmt(fmt)
        ds_ = D.create(src, fmt=fmt, eps=2, hashes=hashes)
        ref = {}
        sessions = []
        opseq.do_session(ds_, 0, "root", "mix", 2, ref, sessions)
        opseq.do_session(ds_, 1, "x/y", "train", 2, ref, sessions)
        before = {s: D.ids(ds_, s, "sync") for s in ref}
        dst = box / target_name
        dst.parent.mkdir(parents=True, exist_ok=True)
        if how == "copy":
            shutil.copytree(src, dst)
        else:
            shutil.move(str(src), str(dst))
        desc = (f"{fmt} hashes={list(hashes)} {how} to {target_name!r} "
                f"opened by {open_by}")
        try:
            if open_by == "absolute":
                moved = Dataset(dst)
            elif open_by == "relative-parent":
                os.chdir(dst.parent)
                moved = Dataset(dst.name)
            elif open_by == "relative-inside":
                os.chdir(dst)
                moved = Dataset(".")
            elif open_by == "relative-deep":
                os.chdir(box)
                moved = Dataset(os.path.relpath(dst, box))
            else:
                os.chdir(dst / "train")
                moved = Dataset("..")
            os.chdir(box / "orig")  # the process moves on
            moved.check(show_progressbar=False)
            after = {s: D.ids(moved, s, "sync") for s in ref}
            if after != before:
                out["bad"].append(("content", f"{desc}: content {after} != "
                                   f"{before}", list(args)))
            opseq.do_session(moved, 2, "x", "test", 2, ref, sessions)
            opseq.do_session(moved, 3, "root", "train", 2, ref, sessions)
            bad, _ = opseq.inspect(dst, moved, ref, 2, fmt, hashes)
            for prop, sym, msg in bad:
                out["bad"].append((sym, f"{desc}: after two further "
                                   f"sessions: {msg}", list(args)))
            if how == "move-back":
                # the directory returns to where this process has already
                # read it (with fewer sessions in it)
                del moved
                shutil.move(str(dst), str(src))
                back = Dataset(src)
                back.check(show_progressbar=False)
                bad, _ = opseq.inspect(src, back, ref, 2, fmt, hashes)
                for prop, sym, msg in bad:
                    out["bad"].append((sym, f"{desc}: moved back to the "
                                       f"original place: {msg}", list(args)))
            if how == "move-replace":
                # another dataset takes the place this process has read
                other = box / "other-ds"
                ods = D.create(other, fmt=fmt, eps=2, hashes=hashes)
                oref: dict = {}
                osess: list = []
                opseq.do_session(ods, 7, "x", "mix", 2, oref, osess)
                opseq.do_session(ods, 8, "root", "train", 2, oref, osess)
                del ods
                shutil.rmtree(dst)
                shutil.move(str(other), str(dst))
                new = Dataset(dst)
                new.check(show_progressbar=False)
                bad, _ = opseq.inspect(dst, new, oref, 2, fmt, hashes)
                for prop, sym, msg in bad:
                    out["bad"].append((sym, f"{desc}: another dataset moved "
                                       f"into that place: {msg}", list(args)))
            if how == "copy":
                orig = Dataset(src)
                orig.check(show_progressbar=False)
                if {s: D.ids(orig, s, "sync") for s in before} != before:
                    out["bad"].append(("original-changed",
                                       f"{desc}: writing to the copy changed "
                                       f"the original", list(args)))
        except Exception as e:  # pylint: disable=broad-except
            out["bad"].append(("fails", f"{desc}: {type(e).__name__}: "
                               f"{str(e)[:200]}", list(args)))
    except Exception as e:  # pylint: disable=broad-except
        out["harness"] = f"{type(e).__name__}: {e} " + traceback.format_exc(
        )[-400:]
    finally:
        os.chdir(cwd)
        shutil.rmtree(box, ignore_errors=True)
    return out


def version_case(args) -> dict:
    versions, = args
    import semver
    import sedpack
    from sedpack.io import Dataset
    out = {"bad": [], "cases": 0, "harness": None}
    root = core.fresh_dir("c20v")
    try:
        ds_ = D.create(root, fmt="fb", eps=2)
        with ds_.filler() as f:
            f.write_example(values=D.example((0, 0, 0)), split="train")
        p = root / "dataset_info.json"
        pristine = p.read_text()
        cur = semver.Version.parse(sedpack.__version__)
        for v in versions:
            out["cases"] += 1
            doc = json.loads(pristine)
            doc["metadata"]["sedpack_version"] = v
            p.write_text(json.dumps(doc, indent=2))
            newer = semver.Version.parse(v).compare(cur) > 0
            try:
                h = Dataset(root)
                ok = True
                n = len(D.ids(h, "train", "sync"))
            except Exception as e:  # pylint: disable=broad-except
                ok = False
                err = f"{type(e).__name__}: {str(e)[:100]}"
            if newer and ok:
                out["bad"].append(
                    ("newer-accepted", f"dataset recorded by version {v} "
                     f"(running {cur}) was loaded instead of refused", v))
            if not newer and not ok:
                out["bad"].append(
                    ("older-refused", f"dataset recorded by version {v} "
                     f"(running {cur}) does not load: {err}", v))
            if not newer and ok and n != 1:
                out["bad"].append(("content", f"version {v}: {n} examples",
                                   v))
    except Exception as e:  # pylint: disable=broad-except
        out["harness"] = f"{type(e).__name__}: {e} " + traceback.format_exc(
        )[-400:]
    finally:
        shutil.rmtree(root, ignore_errors=True)
    return out


def versions(cur: str) -> list[str]:
    M, m, p = (int(x) for x in cur.split(".")[:3])
    out = []
    for a in {max(M - 1, 0), M, M + 1}:
        for b in {max(m - 1, 0), m, m + 1, 0, 10}:
            for c in {max(p - 1, 0), p, p + 1, 0, 10, 70}:
                out.append(f"{a}.{b}.{c}")
    out += [f"{cur}-rc1", f"{cur}-alpha.1", f"{cur}+build5",
            f"{M}.{m}.{p + 1}-rc1", f"{M}.{m}.{p + 1}-0", f"{cur}-rc1+b2",
            f"{M}.{m}.{max(p - 1, 0)}+zzz", f"{M}.{m + 1}.0-alpha",
            f"{M + 1}.0.0-beta"]
    return sorted(set(out))


def run(ctx):
    descs = descriptions(ctx.tier)
    chunks = [descs[i::32] for i in range(32)]
    # incl. names that are not in Unicode normal form C (decomposed accent,
    # ANGSTROM SIGN): a path must be used in the spelling it was given
    names = ["plain", "nested/deep/er", "ünï cødé/日本 語", "with blank/ d s ",
             "orig/ds2", "a.b/c-d_e", "cafe\u0301/nfd", "\u212bngstr\u00f6m"]
    fmts = ("fb", "npz") if ctx.tier == "quick" else ("fb", "npz", "tfrec")
    rel = [(f, n, how, ob) for f in fmts for n in names
           for how in ("copy", "move")
           for ob in ("absolute", "relative-parent", "relative-inside",
                      "relative-deep", "relative-dotdot")]
    # places this process has read before: move away, write, move back;
    # another dataset moved into the place; without / with two checksum
    # algorithms (what a cache of parsed metadata could key on)
    rel += [(f + v, n, how, ob) for f in fmts for v in ("/nohash", "/2hash", "")
            for n in names[:2] for how in ("move-back", "move-replace", "copy")
            for ob in ("absolute", "relative-parent")
            if not (v == "" and how == "copy")]
    import importlib.util
    spec = importlib.util.find_spec("sedpack")
    cur = None
    for line in Path(spec.origin).read_text().splitlines():
        if line.startswith("__version__"):
            cur = line.split('"')[1]
    vs = versions(cur)
    with core.pool() as ex:
        n = 0
        for r in ex.map(roundtrip_case, [(c,) for c in chunks]):
            if r["harness"]:
                ctx.harness_error(r["harness"])
            n += r["cases"]
            for sym, msg, d in r["bad"]:
                ctx.violation({"engine": "grid", "part": "roundtrip",
                               "symptom": sym}, msg,
                              {"kind": "roundtrip", "desc": d})
        ctx.part("description round trip", descriptions=n,
                 json_values=len(json_values(ctx.tier)))
        ctx.add(evaluations=n, distinct_nontrivial=n)
        ne = 0
        etasks = [(lv, st, sv) for lv in ("dataset", "attribute")
                  for st in ("in-place", "replaced")
                  for sv in ("write_config", "empty filler session")]
        for r in ex.map(edit_case, etasks):
            if r["harness"]:
                ctx.harness_error(r["harness"])
            ne += r["cases"]
            for sym, msg, a in r["bad"]:
                ctx.violation({"engine": "grid", "part": "edit",
                               "symptom": sym}, msg,
                              {"kind": "edit", "args": a})
        ctx.part("description edited by a later writer and saved without "
                 "new examples: value pairs equal under == but not as JSON",
                 cases=ne, pairs=len(EDIT_PAIRS))
        ctx.add(evaluations=ne, distinct_nontrivial=ne)
        m = 0
        for r in ex.map(relocation_case, rel):
            if r["harness"]:
                ctx.harness_error(r["harness"])
            m += r["cases"]
            for sym, msg, a in r["bad"]:
                ctx.violation({"engine": "grid", "part": "relocation",
                               "symptom": sym}, msg,
                              {"kind": "relocation", "args": a})
        ctx.part("relocation: copy/move x target names x way of opening",
                 cases=m)
        ctx.add(evaluations=m, distinct_nontrivial=m)
        k = 0
        for r in ex.map(version_case, [(vs[i::8],) for i in range(8)]):
            if r["harness"]:
                ctx.harness_error(r["harness"])
            k += r["cases"]
            for sym, msg, v in r["bad"]:
                ctx.violation({"engine": "grid", "part": "version",
                               "symptom": sym}, msg,
                              {"kind": "version", "version": v})
        ctx.part("version gate", running=cur, versions=k)
        ctx.add(evaluations=k, distinct_nontrivial=k)
    ctx.sample({"description": {"custom_metadata": {"key": [2**53 + 1,
                                                            {"z": 1e308}]}}})
    ctx.sample({"relocation": ["npz", "ünï cødé/日本 語", "move",
                               "relative-dotdot"]})
    ctx.sample({"version": f"{cur}-rc1 (older: loads)"})
    ctx.cov["rule"] = (
        "cells of three grids: (1) descriptions = every compression of every "
        "format, a covering family of checksum tuples, every JSON value of "
        "depth <= 2 over 13 atoms placed at dataset / attribute / shard "
        "level, unicode and control-character texts, default and "
        "non-default settings; (2) relocation = formats x 6 target names x "
        "copy/move x 5 ways of opening (absolute, relative from parent, "
        "from inside, from above, via '..'), followed by check, iteration "
        "and two further sessions with the full metadata recount; (3) "
        "version gate = all triples around the running version plus "
        "pre-release/build suffixes, semver precedence as oracle")
    ctx.cov["exhaustive"] = True
    ctx.assumptions[:] = [
        "custom metadata restricted to JSON-representable values with "
        "finite numbers (statement)",
    ]


def replay(case):
    core.import_sedpack_quietly()
    k = case["kind"]
    if k == "roundtrip":
        d = case["desc"]
        d["hashes"] = tuple(d["hashes"])
        return [m for _, m, _ in roundtrip_case(([d],))["bad"]]
    if k == "relocation":
        return [m for _, m, _ in relocation_case(tuple(case["args"]))["bad"]]
    if k == "edit":
        return [m for _, m, _ in edit_case(tuple(case["args"]))["bad"]]
    return [m for _, m, _ in version_case(([case["version"]],))["bad"]]
