"""C01: round-trip fidelity - every value read equals the value written."""
from __future__ import annotations

import asyncio
import hashlib
import shutil
import traceback

import numpy as np

from vf import core, ds as D

NUM = ("int8", "uint8", "int16", "uint16", "int32", "uint32", "int64",
       "uint64", "float16", "float32", "float64")
TFREC_NUM = ("int8", "uint8", "int32", "int64", "float16", "float32")
SHAPES = {0: (), 1: (3,), 2: (2, 3), 3: (2, 1, 2), 4: (1, 2, 1, 2)}
COMP = {"fb": ("", "BZ2", "GZIP", "LZMA", "LZ4", "ZLIB", "ZSTD"),
        "npz": ("ZIP", ""), "tfrec": ("GZIP", "ZLIB", "")}
RUST_COMP = ("", "LZ4", "GZIP", "ZLIB")
PRES = ("c", "fortran", "strided", "negstride", "bigendian", "narrow",
        "scalar", "readonly", "mutated_after")
NARROW = {"int16": "int8", "int32": "int16", "int64": "int32",
          "uint16": "uint8", "uint32": "uint16", "uint64": "uint32",
          "float32": "float16", "float64": "float32", "int8": "int8",
          "uint8": "uint8", "float16": "float16"}


def pairs(dtypes):
    return [(d, r) for d in dtypes for r in range(5)]


def layout(i: int, dtypes) -> list[tuple[str, tuple]]:
    """4 attributes; over all i every (dtype, rank) pair occurs in every
    position (first, two middles, last)."""
    p = pairs(dtypes)
    n = len(p)
    return [(p[(i + 7 * j) % n][0], SHAPES[p[(i + 7 * j) % n][1]])
            for j in range(4)]


def special_bits(dtype: np.dtype, rng) -> np.ndarray:
    """Interesting bit patterns of the dtype as an unsigned-int array."""
    bits = dtype.itemsize * 8
    u = np.dtype(f"uint{bits}")
    vals = [0, 1, (1 << bits) - 1, 1 << (bits - 1), (1 << (bits - 1)) - 1,
            (1 << (bits - 1)) + 1]
    vals += [1 << k for k in range(bits)]  # walking one
    vals += [((1 << bits) - 1) ^ (1 << k) for k in range(bits)]  # walking zero
    if dtype.kind == "f":
        m = {16: 10, 32: 23, 64: 52}[bits]
        e_all = ((1 << (bits - 1 - m)) - 1) << m
        vals += [e_all, e_all | (1 << (bits - 1)),  # +-inf
                 e_all | 1, e_all | (1 << (m - 1)),  # sNaN, qNaN
                 e_all | (1 << (m - 1)) | 0x55, e_all | 0x2a | (1 << (bits - 1)),
                 1, (1 << m) - 1, 1 << m,  # subnormals, smallest normal
                 (e_all - (1 << m)) | ((1 << m) - 1)]  # largest finite
    vals += [int(x) for x in rng.integers(0, 1 << min(bits, 63), 64,
                                          dtype=np.uint64)]
    if bits == 64:
        vals += [int(x) | (1 << 63) for x in rng.integers(0, 1 << 63, 16,
                                                           dtype=np.uint64)]
    return np.array([v & ((1 << bits) - 1) for v in vals], dtype=u)


def logical(dtype: str, shape: tuple, e: int, rng, narrow: bool):
    """The value written for example e, as a C-ordered little-endian array
    of the declared dtype (or of the narrower dtype when ``narrow``)."""
    dt = np.dtype(NARROW[dtype] if narrow else dtype)
    sp = special_bits(dt, rng)
    n = int(np.prod(shape)) if shape else 1
    idx = (np.arange(n) * 5 + e * 11) % len(sp)
    return sp[idx].view(dt).reshape(shape).copy()


def present(arr: np.ndarray, how: str):
    """(object handed to the writer, array that may be mutated afterwards)"""
    if how == "c":
        return (arr if arr.ndim == 0 else np.ascontiguousarray(arr)), None
    if how == "fortran":
        return (arr if arr.ndim == 0 else np.asfortranarray(arr)), None
    if how == "strided":
        if arr.ndim == 0:
            big = np.zeros(3, arr.dtype)
            big[1] = arr
            return big[1:2].reshape(()), None
        big = np.zeros(tuple(2 * s for s in arr.shape), arr.dtype)
        sl = tuple(slice(None, None, 2) for _ in arr.shape)
        big[sl] = arr
        return big[sl], None
    if how == "negstride":
        if arr.ndim == 0:
            return arr, None
        rev = arr[::-1].copy()
        return rev[::-1], None
    if how == "bigendian":
        return arr.astype(arr.dtype.newbyteorder(">")), None
    if how == "narrow":
        return arr, None  # arr already has the narrower dtype
    if how == "scalar":
        if arr.ndim == 0:
            return arr[()], None  # NumPy scalar
        # (Python lists are not among the presentations of the statement)
        return np.array(arr, order="K", subok=True), None
    if how == "readonly":
        a = arr.copy()
        a.setflags(write=False)
        return a, None
    if how == "mutated_after":
        a = arr.copy()
        return a, a
    raise ValueError(how)


def norm(x, dtype: str) -> bytes:
    """Bytes of a read value, C order, little endian, declared dtype."""
    a = np.asarray(x)
    dt = np.dtype(dtype).newbyteorder("<")
    if a.dtype != dt:
        a = a.astype(dt)
    return np.ascontiguousarray(a).tobytes()


def _same_up_to_nan(rb: bytes, eb: bytes, d: str) -> bool:
    a = np.frombuffer(eb, np.dtype(d))
    b = np.frombuffer(rb, np.dtype(d))
    if a.shape != b.shape:
        return False
    na, nb = np.isnan(a), np.isnan(b)
    u = f"u{np.dtype(d).itemsize}"
    return bool((na == nb).all() and
                (a.view(u)[~na] == b.view(u)[~nb]).all())


def _value_symptom(want: np.ndarray, got: np.ndarray) -> str:
    """'snan-quieted' when the only differences are signalling NaNs that
    came back with the quiet bit set (payload otherwise intact), else
    'value'."""
    if want.dtype.kind != "f" or want.shape != got.shape:
        return "value"
    u = f"u{want.itemsize}"
    w, g = want.view(u), got.view(u)
    mant = {2: 10, 4: 23, 8: 52}[want.itemsize]
    quiet = np.array(1 << (mant - 1), dtype=u)
    diff = w != g
    if not diff.any():
        return "value"
    ok = np.isnan(want[diff]) & ((w[diff] & quiet) == 0) & (
        g[diff] == (w[diff] | quiet))
    return "snan-quieted" if ok.all() else "value"


def read_all(ds_, fmt: str, comp: str, tier: str) -> dict:
    out = {}
    ifaces = ["sync", "concurrent"]
    if fmt in ("fb", "npz"):
        ifaces.append("async")
    if fmt == "fb" and comp in RUST_COMP:
        ifaces.append("rust")
    ifaces.append("tf")
    for iface in ifaces:
        try:
            out[iface] = D.with_alarm(
                120, lambda: D.iterate(ds_, "train", iface))
        except Exception as e:  # pylint: disable=broad-except
            out[iface] = f"{type(e).__name__}: {str(e)[:100]}"
    return out


def numeric_case(args) -> dict:
    fmt, comp, li, seed = args[:4]
    eps = args[4] if len(args) > 4 else 4
    root = core.fresh_dir("c01")
    out = {"args": list(args), "bad": [], "cells": 0, "rejected": 0,
           "unsupported": 0, "harness": None}
    try:
        from sedpack.io import Dataset, Metadata
        from sedpack.io.metadata import Attribute, DatasetStructure
        dtypes = TFREC_NUM if fmt == "tfrec" else NUM
        lay = layout(li, dtypes)
        attrs = [Attribute(name=f"a{j}", dtype=d, shape=s)
                 for j, (d, s) in enumerate(lay)]
        ds_ = Dataset.create(
            path=root, metadata=Metadata(),
            dataset_structure=DatasetStructure(
                saved_data_description=attrs, compression=comp,
                examples_per_shard=eps, shard_file_type=fmt,
                hash_checksum_algorithms=("md5",)))
        rng = np.random.default_rng(seed * 7919 + li)
        expected = []  # per accepted example: {name: bytes}
        info = []
        # 9 presentations, 4 examples per shard: after 36 examples every
        # presentation has been the first, ..., last example of a shard
        E = 4 * len(PRES) if eps == 4 else len(PRES) + (eps - 1)
        with ds_.filler() as f:
            for e in range(E):
                how = PRES[e % len(PRES)]
                values, exp, mut = {}, {}, []
                for j, (d, s) in enumerate(lay):
                    arr = logical(d, s, e, rng, narrow=(how == "narrow"))
                    exp[f"a{j}"] = norm(arr, d if fmt != "tfrec" else d)
                    obj, m = present(arr, how)
                    values[f"a{j}"] = obj
                    if m is not None:
                        mut.append(m)
                try:
                    f.write_example(values=values, split="train")
                except Exception as e:  # pylint: disable=broad-except
                    # all nine presentations are accepted by every writer on
                    # the unchanged tree: a rejection loses a presentation
                    out["rejected"] += 1
                    out["bad"].append(
                        ("valid-rejected", "writer",
                         f"{fmt}/{comp or 'none'} layout {lay}: presentation "
                         f"{how} of valid values was rejected: "
                         f"{type(e).__name__}: {str(e)[:100]}"))
                    continue
                for m in mut:
                    m[...] = 0  # the caller reuses its buffer
                expected.append(exp)
                info.append((e, how))
        if not expected:
            return out
        ds_ = Dataset(root)
        for iface, got in read_all(ds_, fmt, comp, "quick").items():
            if isinstance(got, str):
                # every dtype of the layouts is supported by every reader of
                # the format (measured on the unchanged tree: 0 failures)
                out["unsupported"] += 1
                out["bad"].append(
                    ("reader-fails", iface,
                     f"{fmt}/{comp or 'none'} layout {lay}: reader {iface} "
                     f"fails on a dataset of supported dtypes: {got}"))
                continue
            if len(got) != len(expected):
                out["bad"].append(
                    ("count", iface,
                     f"{fmt}/{comp or 'none'} layout {lay}: reader {iface} "
                     f"returned {len(got)} of {len(expected)} examples"))
                continue
            for (e, how), exp, ex in zip(info, expected, got):
                for j, (d, s) in enumerate(lay):
                    out["cells"] += 1
                    name = f"a{j}"
                    x = np.asarray(ex[name])
                    want_dt = d
                    if fmt == "tfrec" and np.dtype(d).kind in "iu":
                        # TFRecord returns integers widened to int64
                        if x.dtype != np.int64:
                            out["bad"].append(
                                ("dtype", iface,
                                 f"tfrec attribute {d}: reader {iface} "
                                 f"returns dtype {x.dtype}, not int64"))
                        rb = norm(x, "int64")
                        eb = np.frombuffer(exp[name], np.dtype(d)).astype(
                            np.int64).tobytes()
                    else:
                        rb = norm(x, want_dt)
                        eb = exp[name]
                    if fmt == "fb" and iface != "tf" and x.dtype != np.dtype(
                            d):
                        out["bad"].append(
                            ("dtype", iface,
                             f"fb attribute declared {d}: reader {iface} "
                             f"returns dtype {x.dtype}"))
                    if tuple(x.shape) != tuple(s):
                        out["bad"].append(
                            ("shape", iface,
                             f"{fmt}/{comp or 'none'} attribute {d}{s} "
                             f"presentation {how}: reader {iface} returns "
                             f"shape {x.shape}"))
                    elif rb != eb and how == "narrow" and np.dtype(
                            d).kind == "f" and _same_up_to_nan(rb, eb, d):
                        # the widened image of a narrow NaN payload is not
                        # defined by the statement: any NaN is accepted
                        pass
                    elif rb != eb:
                        a = np.frombuffer(eb, np.dtype(d) if not (
                            fmt == "tfrec" and np.dtype(d).kind in "iu")
                            else np.int64)
                        b = np.frombuffer(rb, a.dtype)
                        k = int(np.argmax(a.view(f"u{a.itemsize}") !=
                                          b.view(f"u{a.itemsize}")))
                        out["bad"].append(
                            (_value_symptom(a, b), iface,
                             f"{fmt}/{comp or 'none'} attribute a{j} "
                             f"{d}{s} (position {j} of 4) presentation "
                             f"{how}: reader {iface} returns bits "
                             f"{hex(int(b.view(f'u{a.itemsize}')[k]))} for "
                             f"written {hex(int(a.view(f'u{a.itemsize}')[k]))} "
                             f"at flat index {k}"))
    except Exception as e:  # pylint: disable=broad-except
        out["harness"] = f"{type(e).__name__}: {e} " + traceback.format_exc(
        )[-500:]
    finally:
        shutil.rmtree(root, ignore_errors=True)
    return out


def allvalues_case(args) -> dict:
    """Every value of the 8- and 16-bit dtypes in one array."""
    fmt, comp = args
    root = core.fresh_dir("c01a")
    out = {"args": list(args), "bad": [], "cells": 0, "rejected": 0,
           "unsupported": 0, "harness": None}
    try:
        from sedpack.io import Dataset, Metadata
        from sedpack.io.metadata import Attribute, DatasetStructure
        dts = ["int8", "uint8", "float16"] + (
            ["int16", "uint16"] if fmt != "tfrec" else [])
        attrs = [Attribute(name=d, dtype=d,
                           shape=(1 << (np.dtype(d).itemsize * 8),))
                 for d in dts]
        ds_ = Dataset.create(
            path=root, metadata=Metadata(),
            dataset_structure=DatasetStructure(
                saved_data_description=attrs, compression=comp,
                examples_per_shard=1, shard_file_type=fmt,
                hash_checksum_algorithms=()))
        vals = {d: np.arange(1 << (np.dtype(d).itemsize * 8),
                             dtype=f"uint{np.dtype(d).itemsize * 8}").view(d)
                for d in dts}
        with ds_.filler() as f:
            f.write_example(values={d: v.copy() for d, v in vals.items()},
                            split="train")
            f.write_example(values={d: v[::-1] for d, v in vals.items()},
                            split="train")
        ds_ = Dataset(root)
        for iface, got in read_all(ds_, fmt, comp, "quick").items():
            if isinstance(got, str):
                out["unsupported"] += 1
                continue
            for k, ex in enumerate(got):
                for d in dts:
                    out["cells"] += 1
                    w = vals[d] if k == 0 else vals[d][::-1]
                    x = np.asarray(ex[d])
                    if fmt == "tfrec" and np.dtype(d).kind in "iu":
                        ok = (x.astype(np.int64) == w.astype(np.int64)).all()
                    else:
                        ok = norm(x, d) == norm(w, d)
                    if not ok:
                        bits = np.dtype(d).itemsize * 8
                        a = np.frombuffer(norm(w, d), f"uint{bits}")
                        b = np.frombuffer(norm(x, d), f"uint{bits}") if (
                            x.size == w.size) else a[:0]
                        nbad = int((a != b).sum()) if b.size else -1
                        out["bad"].append(
                            ("value", iface,
                             f"{fmt}/{comp or 'none'} all values of {d}: "
                             f"reader {iface} returns {nbad} wrong values "
                             f"(first: {hex(int(a[np.argmax(a != b)])) if nbad > 0 else '?'})"))
    except Exception as e:  # pylint: disable=broad-except
        out["harness"] = f"{type(e).__name__}: {e} " + traceback.format_exc(
        )[-500:]
    finally:
        shutil.rmtree(root, ignore_errors=True)
    return out


STRINGS = ["", "a", "with\x00nul", "trailing nul\x00", "ünïcødé 日本語 ✓",
           "x" * 4096, " \t\n", "\x00"]


def string_case(args) -> dict:
    """TFRecord str / bytes attributes (variable size)."""
    comp, = args
    root = core.fresh_dir("c01s")
    out = {"args": ["tfrec", comp, "strings"], "bad": [], "cells": 0,
           "rejected": 0, "unsupported": 0, "harness": None}
    try:
        from sedpack.io import Dataset, Metadata
        from sedpack.io.metadata import Attribute, DatasetStructure
        attrs = [Attribute(name="b", dtype="bytes", shape=()),
                 Attribute(name="n", dtype="int64", shape=()),
                 Attribute(name="s", dtype="str", shape=())]
        ds_ = Dataset.create(
            path=root, metadata=Metadata(),
            dataset_structure=DatasetStructure(
                saved_data_description=attrs, compression=comp,
                examples_per_shard=3, shard_file_type="tfrec",
                hash_checksum_algorithms=()))
        exp = []
        with ds_.filler() as f:
            for k, s in enumerate(STRINGS):
                b = s.encode("utf-8")[::-1] + bytes([0, 255, k])
                try:
                    f.write_example(values={"b": b, "n": k, "s": s},
                                    split="train")
                    exp.append((b, k, s.encode("utf-8")))
                except Exception:  # pylint: disable=broad-except
                    out["rejected"] += 1
        ds_ = Dataset(root)
        for iface, got in read_all(ds_, "tfrec", comp, "quick").items():
            if isinstance(got, str):
                out["unsupported"] += 1
                continue
            if len(got) != len(exp):
                out["bad"].append(("count", iface,
                                   f"tfrec strings: {len(got)} of "
                                   f"{len(exp)}"))
                continue
            for (b, k, s), ex in zip(exp, got):
                out["cells"] += 2
                if bytes(ex["b"]) != b:
                    out["bad"].append(
                        ("value", iface,
                         f"tfrec/{comp or 'none'} bytes attribute: reader "
                         f"{iface} returns {bytes(ex['b'])[:20]!r} for "
                         f"{b[:20]!r} (len {len(b)})"))
                if bytes(ex["s"]) != s:
                    out["bad"].append(
                        ("value", iface,
                         f"tfrec/{comp or 'none'} str attribute: reader "
                         f"{iface} returns {bytes(ex['s'])[:20]!r} for the "
                         f"UTF-8 of {s[:20].decode('utf-8', 'replace')!r}"))
    except Exception as e:  # pylint: disable=broad-except
        out["harness"] = f"{type(e).__name__}: {e} " + traceback.format_exc(
        )[-500:]
    finally:
        shutil.rmtree(root, ignore_errors=True)
    return out


def twins_case(args) -> dict:
    """Values in ONE shard that are equal under == (or both NaN) but not
    bit-identical: signs of zeros, NaN payloads; and exact repeats."""
    fmt, comp = args
    root = core.fresh_dir("c01T")
    out = {"args": list(args), "bad": [], "cells": 0, "rejected": 0,
           "unsupported": 0, "harness": None}
    try:
        from sedpack.io import Dataset, Metadata
        from sedpack.io.metadata import Attribute, DatasetStructure
        fdt = ["float32", "float16"] + ([] if fmt == "tfrec" else
                                        ["float64"])
        attrs = [Attribute(name="tag", dtype="int32", shape=(2,))]
        for d in fdt:
            attrs += [Attribute(name=f"{d}_v", dtype=d, shape=(3,)),
                      Attribute(name=f"{d}_s", dtype=d, shape=())]
        ds_ = Dataset.create(
            path=root, metadata=Metadata(),
            dataset_structure=DatasetStructure(
                saved_data_description=attrs, compression=comp,
                examples_per_shard=16, shard_file_type=fmt,
                hash_checksum_algorithms=("md5",)))

        def qnan(d, payload):
            u = {"float16": np.uint16, "float32": np.uint32,
                 "float64": np.uint64}[d]
            base = {"float16": 0x7e00, "float32": 0x7fc00000,
                    "float64": 0x7ff8000000000000}[d]
            return np.array([base | payload], dtype=u).view(d)[0]

        rows = []
        for k in range(8):
            ex = {"tag": np.array([7, 7], dtype=np.int32)}  # exact repeat
            for d in fdt:
                z, nz = np.array(0.0, d), np.array(-0.0, d)
                one = np.array(1.5, d)
                vec = {0: [z, one, nz], 1: [nz, one, z], 2: [z, one, nz],
                       3: [qnan(d, 1), one, z], 4: [qnan(d, 2), one, z],
                       5: [nz, one, nz], 6: [z, one, z],
                       7: [qnan(d, 1), one, z]}[k]
                ex[f"{d}_v"] = np.array(vec, dtype=d)
                ex[f"{d}_s"] = np.array([z, nz, z, qnan(d, 1), qnan(d, 3),
                                         nz, nz, z][k], dtype=d)
            rows.append(ex)
        with ds_.filler() as f:
            for ex in rows:
                f.write_example(values=ex, split="train")
        ds_ = Dataset(root)
        for iface, got in read_all(ds_, fmt, comp, "quick").items():
            if isinstance(got, str):
                out["bad"].append(("twins", iface,
                                   f"{fmt}/{comp or 'none'} near-duplicate "
                                   f"values: reader {iface} fails: {got}"))
                continue
            if len(got) != len(rows):
                out["bad"].append(("count", iface,
                                   f"{fmt}/{comp or 'none'} near-duplicate "
                                   f"values: {len(got)} of {len(rows)}"))
                continue
            for k, (w, g) in enumerate(zip(rows, got)):
                for a in attrs:
                    if a.dtype == "int32":
                        continue
                    out["cells"] += 1
                    wb = norm(w[a.name], a.dtype)
                    gb = norm(np.asarray(g[a.name]), a.dtype)
                    if wb != gb:
                        out["bad"].append(
                            ("twins", iface,
                             f"{fmt}/{comp or 'none'} attribute {a.name}: "
                             f"example {k} of a shard of near-duplicates "
                             f"(signed zeros / NaN payloads) reads back as "
                             f"bits {gb.hex()} for written {wb.hex()} "
                             f"(reader {iface})"))
    except Exception as e:  # pylint: disable=broad-except
        out["harness"] = f"{type(e).__name__}: {e} " + traceback.format_exc(
        )[-400:]
    finally:
        shutil.rmtree(root, ignore_errors=True)
    return out


def large_case(args) -> dict:
    """One shard of more than 16 MiB (size thresholds of codecs, buffers and
    chunked I/O): 5 examples of float32 (1024, 1024) + a scalar label."""
    fmt, comp, seed = args
    root = core.fresh_dir("c01L")
    out = {"args": list(args), "bad": [], "cells": 0, "rejected": 0,
           "unsupported": 0, "harness": None}
    try:
        from sedpack.io import Dataset, Metadata
        from sedpack.io.metadata import Attribute, DatasetStructure
        ds_ = Dataset.create(
            path=root, metadata=Metadata(),
            dataset_structure=DatasetStructure(
                saved_data_description=[
                    Attribute(name="label", dtype="int8", shape=()),
                    Attribute(name="big", dtype="float32",
                              shape=(1024, 1024))],
                compression=comp, examples_per_shard=8,
                shard_file_type=fmt, hash_checksum_algorithms=("md5",)))
        rng = np.random.default_rng(seed + 17)
        want = []
        with ds_.filler() as f:
            for q in range(5):
                big = rng.integers(0, 2**32, (1024, 1024),
                                   dtype=np.uint32).view(np.float32)
                big[np.isnan(big)] = np.float32(q)  # NaN payloads: see above
                f.write_example(values={"label": np.int8(q - 2),
                                        "big": big}, split="train")
                want.append((q - 2, hashlib.md5(
                    np.ascontiguousarray(big).tobytes()).hexdigest()))
        ds_ = Dataset(root)
        for iface, got in read_all(ds_, fmt, comp, "quick").items():
            if isinstance(got, str):
                # int8 and float32 are supported by every reader
                out["bad"].append(
                    ("large", iface,
                     f"{fmt}/{comp or 'none'} one shard of 20 MiB: reader "
                     f"{iface} fails: {got}"))
                continue
            out["cells"] += 5
            have = []
            for ex in got:
                b = np.ascontiguousarray(np.asarray(ex["big"]).astype(
                    np.float32, copy=False))
                have.append((int(np.asarray(ex["label"]).reshape(-1)[0]),
                             hashlib.md5(b.tobytes()).hexdigest()))
            if have != want:
                out["bad"].append(
                    ("large", iface,
                     f"{fmt}/{comp or 'none'} one shard of 20 MiB: reader "
                     f"{iface} returns {len(have)} examples, "
                     f"{sum(a == b for a, b in zip(have, want))} of 5 "
                     f"identical to what was written"))
    except Exception as e:  # pylint: disable=broad-except
        out["bad"].append(("large", "any",
                           f"{fmt}/{comp or 'none'} one shard of 20 MiB: "
                           f"{type(e).__name__}: {str(e)[:160]}"))
    finally:
        shutil.rmtree(root, ignore_errors=True)
    return out


def run(ctx):
    from vf import rustbuild
    rustbuild.ensure_ext()
    seed = ctx.seed
    num, allv, strs = [], [], []
    thorough = ctx.tier == "thorough"
    for fmt in ("fb", "npz", "tfrec"):
        dtypes = TFREC_NUM if fmt == "tfrec" else NUM
        n_lay = len(pairs(dtypes))
        comps = COMP[fmt]
        for li in range(n_lay):
            if fmt == "tfrec" and not thorough and li % 3:
                continue
            cs = comps if thorough else (comps[li % len(comps)],)
            for c in cs:
                num.append((fmt, c, li, seed))
            # shards holding a single example (every presentation alone in a
            # shard), and a short last shard
            if fmt == "npz" or thorough or li % 3 == 0:
                num.append((fmt, comps[(li + 1) % len(comps)], li, seed, 1))
            if li % 4 == 1:
                num.append((fmt, comps[(li + 2) % len(comps)], li, seed, 5))
        for c in (comps if thorough else comps[:2]):
            allv.append((fmt, c))
    for c in COMP["tfrec"]:
        strs.append((c,))
    with core.pool() as ex:
        large = [("fb", c, seed) for c in (
            COMP["fb"] if thorough else ("", "LZ4", "ZSTD", "GZIP"))]
        if thorough:
            large += [("npz", "ZIP", seed), ("tfrec", "GZIP", seed)]
        twins = [(f, c) for f in ("fb", "npz", "tfrec")
                 for c in (COMP[f] if thorough else COMP[f][:2])]
        for name, fn, tasks in (("numeric layouts", numeric_case, num),
                                ("one 20 MiB shard", large_case, large),
                                ("near-duplicate values in one shard",
                                 twins_case, twins),
                                ("all 8/16-bit values", allvalues_case,
                                 allv),
                                ("tfrec str/bytes", string_case, strs)):
            cells = rej = uns = 0
            for r in ex.map(fn, tasks):
                if r["harness"]:
                    ctx.harness_error(f"{r['args']}: {r['harness']}")
                    continue
                cells += r["cells"]
                rej += r["rejected"]
                uns += r["unsupported"]
                for sym, iface, msg in r["bad"]:
                    ctx.violation(
                        {"engine": "grid", "symptom": sym, "iface": iface,
                         "fmt": r["args"][0]}, msg,
                        {"kind": name, "args": r["args"]})
            ctx.part(name, datasets=len(tasks), cells=cells,
                     rejected_writes=rej, unsupported_reader_passes=uns)
            ctx.add(evaluations=cells, distinct_nontrivial=cells)
    ctx.sample({"format": "fb", "compression": "LZ4",
                "layout": layout(17, NUM), "presentation": "bigendian",
                "reader": "rust"})
    ctx.cov["rule"] = (
        "cell = (format, compression, attribute (dtype, rank 0..4, position "
        "first/middle/last of 4), example value pattern, presentation, "
        "reader); layouts are generated so that every (dtype, rank) pair "
        "occurs in every position; values cycle through min/max/0/+-1, "
        "walking ones and zeros, +-inf, quiet and signalling NaNs with "
        "payloads, subnormals, and 64+ seeded random bit patterns per "
        "dtype; all 2^8 / 2^16 values of the 8/16-bit dtypes in one array; "
        "9 presentations (C, Fortran, strided, negative stride, big-endian, "
        "narrower dtype, NumPy scalar / list, read-only, buffer mutated "
        "after the call), each at every position within a shard of 4 and "
        "alone in a shard of 1; readers "
        "sync, concurrent, async, Rust, tf.data; "
        "oracle: bytes of the value read (C order, little endian, declared "
        "dtype; TFRecord integers widened to int64) == bytes written")
    ctx.cov["exhaustive"] = True
    ctx.assumptions[:] = [
        "the layouts use only dtypes every reader of the format supports "
        "and presentations every writer accepts (both measured on the "
        "unchanged tree), so a rejected valid presentation and a failing "
        "reader are violations, not skipped cells",
        ">= 32-bit dtypes: alphabet of bit patterns, not all values",
    ]


def replay(case):
    from vf import rustbuild
    rustbuild.ensure_ext()
    core.import_sedpack_quietly()
    k, a = case["kind"], case["args"]
    if k == "numeric layouts":
        r = numeric_case(tuple(a))
    elif k == "one 20 MiB shard":
        r = large_case(tuple(a))
    elif k == "near-duplicate values in one shard":
        r = twins_case(tuple(a))
    elif k == "all 8/16-bit values":
        r = allvalues_case(tuple(a))
    else:
        r = string_case((a[1],))
    return [m for _, _, m in r["bad"]]
