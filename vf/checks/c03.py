"""C03: unshuffled iteration is deterministic and preserves write order."""
import shutil
import traceback

from vf import core, dsfamily, ds as D, opseq, dataset_mc

TAGS = {"C03"}


def order_case(args) -> dict:
    name, tier = args[0], args[1]
    uuids = args[2] if len(args) > 2 else None
    root = core.fresh_dir("c03")
    out = {"name": name, "bad": [], "passes": 0, "harness": None,
           "sequences": 0}
    try:
        from sedpack.io import Dataset
        kept, ref = dsfamily.build(root, name, uuids=uuids)
        fmt = (dsfamily.RECIPES.get(name) or dsfamily.EXTRA[name])[0]
        fresh = Dataset(root)
        name = f"{name}[uuids {uuids}]" if uuids else name
        for split, want in ref.items():
            S = dsfamily.n_shards(fresh, split)
            pars = sorted({1, 2, S, S + 2})
            seqs = {}
            for hname, h in (("kept", kept), ("reopened", fresh)):
                for iface in dsfamily.interfaces(fmt, with_rust=True):
                    for par in (pars if iface != "sync" else [None]):
                        for p in range(2):  # two passes
                            kw = {"file_parallelism": par} if par else {}
                            try:
                                seq = D.ids(h, split, iface, **kw)
                            except Exception as e:  # pylint: disable=broad-except
                                out["bad"].append(
                                    ("raises", iface,
                                     f"{name}/{split} {iface} par={par}: "
                                     f"{type(e).__name__}: {str(e)[:120]}"))
                                continue
                            out["passes"] += 1
                            seqs[(hname, iface, par, p)] = seq
            # the same again after finite SHUFFLED passes on the same handles
            # (state left behind by an earlier pass must not leak into the
            # unshuffled order)
            for hname, h in (("kept", kept), ("reopened", fresh)):
                for iface in dsfamily.interfaces(fmt, with_rust=True):
                    try:
                        D.ids(h, split, iface, shuffle=3)
                        D.ids(h, split, iface, shuffle=len(want) + 5)
                    except Exception:  # pylint: disable=broad-except
                        pass
                for iface in dsfamily.interfaces(fmt, with_rust=True):
                    try:
                        seqs[(hname, iface, 2 if iface != "sync" else None,
                              "after shuffled passes")] = D.ids(
                                  h, split, iface)
                        out["passes"] += 1
                    except Exception as e:  # pylint: disable=broad-except
                        out["bad"].append(
                            ("raises", iface,
                             f"{name}/{split} {iface} after shuffled "
                             f"passes: {type(e).__name__}: {str(e)[:120]}"))
            if not seqs:
                continue
            base_key = ("reopened", "sync", None, 0)
            base = seqs.get(base_key) or next(iter(seqs.values()))
            out["sequences"] += len({tuple(s) for s in seqs.values()})
            for key, seq in seqs.items():
                if seq != base:
                    out["bad"].append(
                        ("differs", key[1],
                         f"{name}/{split}: unshuffled sequence of "
                         f"{key[1]} (handle {key[0]}, file_parallelism="
                         f"{key[2]}, pass {key[3]}) is {seq}, sequential "
                         f"reader gives {base}"))
            # every session in its write order
            for s in sorted({i[0] for i in want}):
                w = [i for i in want if i[0] == s]
                g = [i for i in base if i[0] == s]
                # multi-writer: writers in argument order, each in own order
                if g != w:
                    out["bad"].append(
                        ("write-order", "sync",
                         f"{name}/{split}: session {s} written as {w} is "
                         f"iterated as {g}"))
    except Exception as e:  # pylint: disable=broad-except
        out["harness"] = f"{type(e).__name__}: {e} " + traceback.format_exc(
        )[-400:]
    finally:
        shutil.rmtree(root, ignore_errors=True)
    return out


def run(ctx):
    from vf import rustbuild
    rustbuild.ensure_ext()
    with core.pool() as ex:
        tot = seqs = 0
        tasks = [(n, ctx.tier) for n in dsfamily.RECIPES]
        # generated directory names in increasing and in decreasing order
        tasks += [(n, ctx.tier, o) for n in ("multi", "multi4", "nested",
                                             "multi12")
                  for o in ("ascending", "descending")]
        tasks.append(("multi12", ctx.tier))
        for r in ex.map(order_case, tasks):
            if r["harness"]:
                ctx.harness_error(f"{r['name']}: {r['harness']}")
                continue
            tot += r["passes"]
            seqs += r["sequences"]
            for sym, iface, msg in r["bad"]:
                ctx.violation({"engine": "dataset", "symptom": sym,
                               "iface": iface}, msg,
                              {"kind": "order", "name": r["name"].split("[")[0],
                               "uuids": ("descending" if "descending" in
                                         r["name"] else ("ascending" if
                                         "ascending" in r["name"] else
                                         None))})
        ctx.part("dataset family x interfaces x file_parallelism x 2 passes "
                 "x kept/reopened handle (OS schedule)", passes=tot,
                 distinct_sequences=seqs)
        ctx.add(states=seqs, transitions=tot,
                traces_validated_against_impl=tot)
        ctx.sample({"recipe": "nested", "split": "train",
                    "compared": "sync / concurrent(1,2,S,S+2) / async / rust "
                                "/ tf, two passes, kept + reopened handle"})
        dataset_mc.run_controlled(ctx, ex, TAGS, what="once")
    A = opseq.alphabet
    plans = [dict(fmt="fb", eps=2, letters=A(opseq.KINDS_Q, ("mix", "train")),
                  depth=2)]
    if ctx.tier == "thorough":
        plans = [dict(fmt="fb", eps=2, letters=A(opseq.KINDS_T), depth=2),
                 dict(fmt="npz", eps=1, letters=A(opseq.KINDS_Q, ("mix",)),
                      depth=3)]
    opseq.run_bfs_check(ctx, TAGS, plans)
    # write order within one filler session whose calls change the shard
    # metadata back and forth and interleave two splits
    from vf import wseq
    from vf.checks.c10 import letters
    deep = ctx.tier == "thorough"
    wseq.run_plans(ctx, TAGS, [
        dict(fmt="fb", eps=3, depth=5 if deep else 4,
             letters=letters(("train",), ("ok",), ("-", "A", "B"))),
        dict(fmt="npz", eps=2, depth=4 if deep else 3,
             letters=letters(("train", "test"), ("ok",), ("A", "B"))),
        dict(fmt="tfrec", eps=2, depth=3 if deep else 2,
             letters=letters(("train",), ("ok",), ("-", "A", "B"))),
    ])
    ctx.cov["explanation"] = (
        "differential: for every dataset of the family the shuffle=0 "
        "sequences of all interfaces, parallelism values, passes and "
        "handles must be identical and contain every session in write "
        "order; the unshuffled concurrent reader additionally under every "
        "completion order of its batches (cooperative executor, deviation "
        "bound); session histories of depth 2 with interleaved splits; "
        "write_example sequences with metadata changes back and forth")
    ctx.assumptions[:] = [
        "Rust and tf.data threads on the OS schedule here (parallel_map is "
        "explored exhaustively in C15)",
        "cooperative ThreadPoolExecutor model: map() yields results in "
        "submission order, tasks run on up to max_workers threads",
    ]


def replay(case):
    if case.get("kind") == "history":
        return opseq.replay_history(case, TAGS)
    if case.get("kind") == "controlled":
        return dataset_mc.replay(case)
    if case.get("kind") == "wseq":
        from vf import wseq
        return wseq.replay_seq(case, TAGS)
    core.import_sedpack_quietly()
    r = order_case((case["name"], "quick", case.get("uuids")))
    return [m for _, _, m in r["bad"]]
