"""C09: parallel writers do not interfere (E5: real worker processes, every
interleaving of the writers' steps played by a controller over pipes)."""
from __future__ import annotations

import collections
import os
import select
import shutil
import sys
import threading
import traceback
from pathlib import Path

from vf import core, ds as D, opseq

TAGS = {"C09"}
_WRITTEN: list = []
_HOOKED = False


def _audit(event, args):
    if event == "open" and len(args) >= 2:
        p, mode = args[0], args[1]
        flags = args[2] if len(args) > 2 else 0
        if isinstance(p, (str, bytes, os.PathLike)) and (
            (isinstance(mode, str) and any(c in mode for c in "wax+")) or
            (isinstance(flags, int) and flags & (os.O_WRONLY | os.O_RDWR))):
            _WRITTEN.append(os.fspath(p) if not isinstance(p, bytes) else
                            p.decode(errors="ignore"))
    elif event in ("os.rename", "os.mkdir"):
        for a in args[:2]:
            if isinstance(a, (str, os.PathLike)):
                _WRITTEN.append(os.fspath(a))


def gated_feed(dataset_filler, w, items, go_r, ack_w, root):
    """feed_writer: waits for the controller before every write_example and
    before leaving the filler context, acknowledges afterwards."""
    global _HOOKED
    if not _HOOKED:
        sys.addaudithook(_audit)
        _HOOKED = True
    del _WRITTEN[:]

    def wait():
        if go_r >= 0 and not os.read(go_r, 1):
            raise RuntimeError("controller went away")

    def ack():
        if ack_w >= 0:
            os.write(ack_w, b"a")

    with dataset_filler as f:
        for split, idt in items:
            wait()
            f.write_example(values=D.example(tuple(idt)), split=split)
            ack()
        wait()
    ack()
    mine = sorted({p for p in _WRITTEN if p.startswith(root)})
    return (w, [tuple(i) for _, i in items], mine)


def interleavings(counts: list[int]):
    """All distinct sequences with counts[w] occurrences of w."""
    total = sum(counts)
    cur: list[int] = []
    left = list(counts)

    def rec():
        if len(cur) == total:
            yield list(cur)
            return
        for w in range(len(left)):
            if left[w]:
                left[w] -= 1
                cur.append(w)
                yield from rec()
                cur.pop()
                left[w] += 1

    yield from rec()


def writers_of(spec, s=0):
    """spec: list of writers, each a list of (split, n)."""
    out = []
    for w, parts in enumerate(spec):
        items, q = [], 0
        remaining = [[sp, n] for sp, n in parts]
        while any(n for _, n in remaining):
            for r in remaining:
                if r[1]:
                    r[1] -= 1
                    items.append((r[0], (s, w, q)))
                    q += 1
        out.append(items)
    return out


_PARENT = {"on": False, "root": "", "log": None, "finished": None}
_PHOOKED = False


def _parent_audit(event, args):
    """Parent process, during a multi-writer call: which paths under the
    dataset it opens for writing / renames, and which writers had finished
    by then."""
    if not _PARENT["on"] or event not in ("open", "os.rename"):
        return
    if threading.current_thread() is not threading.main_thread():
        return
    p = args[0] if event == "open" else args[1]
    if isinstance(p, bytes):
        p = p.decode(errors="ignore")
    if not isinstance(p, (str, os.PathLike)):
        return
    p = os.fspath(p)
    if not p.startswith(_PARENT["root"]):
        return
    if event == "open":
        mode = args[1] if len(args) > 1 else ""
        flags = args[2] if len(args) > 2 else 0
        if not ((isinstance(mode, str) and any(c in mode for c in "wax+"))
                or (isinstance(flags, int) and
                    flags & (os.O_WRONLY | os.O_RDWR))):
            return
    _PARENT["log"].append((p, frozenset(_PARENT["finished"])))


def play(fmt: str, spec, order: list[int] | None, root: Path, ds_=None,
         s: int = 0, parent_log: list | None = None):
    """Run the multi-writer call once; order=None -> single_process=True.
    Returns (dataset, results or exception string).  ds_ / s: a further call
    (session s) on an existing dataset; parent_log: filled with (path written
    by the parent, writers finished by then)."""
    global _PHOOKED
    if ds_ is None:
        ds_ = D.create(root, fmt=fmt, eps=2)
    writers = writers_of(spec, s)
    k = len(writers)
    finished: set = set()
    if order is None:
        args = [(w, writers[w], -1, -1, str(root)) for w in range(k)]
        res = ds_.write_multiprocessing(feed_writer=gated_feed,
                                        custom_arguments=args,
                                        single_process=True)
        return ds_, res, None
    go = [os.pipe() for _ in range(k)]
    ack = [os.pipe() for _ in range(k)]
    for r, w_ in go + ack:
        os.set_inheritable(r, True)
        os.set_inheritable(w_, True)
    state = {"err": None}

    def controller():
        try:
            left = collections.Counter(order)
            for w in order:
                os.write(go[w][1], b"g")
                rd, _, _ = select.select([ack[w][0]], [], [], 30)
                if not rd:
                    state["err"] = f"writer {w} did not acknowledge a step"
                    break
                os.read(ack[w][0], 1)
                left[w] -= 1
                if not left[w]:
                    finished.add(w)  # its filler context has been left
        except OSError as e:
            state["err"] = f"controller: {e}"
        finally:
            if state["err"]:
                for w in range(k):  # let everybody run to the end
                    try:
                        os.write(go[w][1], b"g" * 64)
                    except OSError:
                        pass

    t = threading.Thread(target=controller, daemon=True)
    args = [(w, writers[w], go[w][0], ack[w][1], str(root))
            for w in range(k)]
    exc = None
    res = None
    if parent_log is not None:
        if not _PHOOKED:
            sys.addaudithook(_parent_audit)
            _PHOOKED = True
        _PARENT.update(on=True, root=str(root), log=parent_log,
                       finished=finished)
    t.start()
    try:
        res = ds_.write_multiprocessing(feed_writer=gated_feed,
                                        custom_arguments=args)
    except Exception as e:  # pylint: disable=broad-except
        exc = f"{type(e).__name__}: {str(e)[:200]}"
    finally:
        _PARENT["on"] = False
    t.join(150)
    for r, w_ in go + ack:
        for fd in (r, w_):
            try:
                os.close(fd)
            except OSError:
                pass
    return ds_, res, exc or state["err"]


def case(args) -> dict:
    fmt, spec, orders = args
    out = {"spec": spec, "fmt": fmt, "bad": [], "executions": 0,
           "harness": None, "outcomes": 0}
    box = core.fresh_dir("c09")
    try:
        # workers of this harness are spawned, which would make "spawn" the
        # default start method in here; the library's default on Linux (and
        # what its pool relies on to inherit the pipes) is fork
        import multiprocessing
        multiprocessing.set_start_method("fork", force=True)
        from sedpack.io import Dataset
        seq_root = box / "seq"
        sds, sres, _ = play(fmt, spec, None, seq_root)
        ref: dict = {}
        for items in writers_of(spec):
            for sp, idt in items:
                ref.setdefault(sp, []).append(idt)
        sbad, skey = opseq.inspect(seq_root, sds, ref, 2, fmt)
        if sbad:
            # the one-after-another mode is the same call: its result must be
            # exact too
            for prop, sym, msg in sbad:
                out["bad"].append((sym, f"{fmt} writers {spec} "
                                   f"single_process=True: {msg}",
                                   {"fmt": fmt, "spec": spec, "order": None}))
            return out
        sseq = {sp: D.ids(Dataset(seq_root), sp, "sync") for sp in ref}
        keys = set()
        for order in orders:
            root = box / "par"
            shutil.rmtree(root, ignore_errors=True)
            out["executions"] += 1
            desc = f"{fmt} writers {spec} interleaving {order}"
            pds, pres, err = play(fmt, spec, order, root)
            case_ = {"fmt": fmt, "spec": spec, "order": order}
            if err:
                out["bad"].append(("fails", f"{desc}: {err}", case_))
                continue
            # return values in argument order
            want_ret = [(w, [i for _, i in items])
                        for w, items in enumerate(writers_of(spec))]
            got_ret = [(r[0], [tuple(i) for i in r[1]]) for r in pres]
            if got_ret != want_ret:
                out["bad"].append(("return-values",
                                   f"{desc}: return values {got_ret} "
                                   f"expected {want_ret}", case_))
            # no two workers wrote the same path
            owners: dict = {}
            for r in pres:
                for p in r[2]:
                    owners.setdefault(p, set()).add(r[0])
            shared = {p: sorted(o) for p, o in owners.items() if len(o) > 1
                      and not os.path.isdir(p)}
            if shared:
                out["bad"].append(("shared-file",
                                   f"{desc}: files written by more than one "
                                   f"worker: {shared}", case_))
            pbad, pkey = opseq.inspect(root, pds, ref, 2, fmt)
            keys.add(pkey)
            for prop, sym, msg in pbad:
                out["bad"].append((sym, f"{desc}: {msg}", case_))
            if pkey != skey and not pbad:
                out["bad"].append(("differs-from-sequential",
                                   f"{desc}: metadata tree differs from the "
                                   f"one-after-another run", case_))
            try:
                pseq = {sp: D.ids(Dataset(root), sp, "sync") for sp in ref}
            except Exception as e:  # pylint: disable=broad-except
                pseq = f"{type(e).__name__}: {str(e)[:120]}"
            if pseq != sseq:
                out["bad"].append(("order",
                                   f"{desc}: iteration gives {pseq}, the "
                                   f"one-after-another run {sseq}", case_))
        out["outcomes"] = len(keys)
    except Exception as e:  # pylint: disable=broad-except
        out["harness"] = f"{type(e).__name__}: {e} " + traceback.format_exc(
        )[-500:]
    finally:
        shutil.rmtree(box, ignore_errors=True)
    return out


def second_call_case(args) -> dict:
    """A second multi-writer call on a dataset that already holds the result
    of a first one (and of a root filler session), under every given
    interleaving of the writers' steps.  Besides the recount: the parent must
    not write into the directory of a writer that is still running."""
    fmt, spec, orders = args
    out = {"spec": spec, "fmt": fmt, "bad": [], "executions": 0,
           "harness": None, "outcomes": 0}
    box = core.fresh_dir("c09s")
    try:
        import multiprocessing
        multiprocessing.set_start_method("fork", force=True)
        keys = set()
        for order in orders:
            root = box / "par"
            shutil.rmtree(root, ignore_errors=True)
            out["executions"] += 1
            desc = (f"{fmt} second multi-writer call, writers {spec}, "
                    f"interleaving {order}")
            case_ = {"fmt": fmt, "spec": spec, "order": order,
                     "kind": "second"}
            ds_, res0, err0 = play(fmt, spec, None, root)
            ref: dict = {}
            for items in writers_of(spec, 0):
                for sp, idt in items:
                    ref.setdefault(sp, []).append(idt)
            log: list = []
            pds, pres, err = play(fmt, spec, order, root, ds_=ds_, s=1,
                                  parent_log=log)
            if err:
                out["bad"].append(("fails", f"{desc}: {err}", case_))
                continue
            for items in writers_of(spec, 1):
                for sp, idt in items:
                    ref.setdefault(sp, []).append(idt)
            # directories owned by the writers of the second call
            owned = {}
            for r in pres:
                for p in r[2]:
                    if p.endswith("shards_list.json") or "." in \
                            os.path.basename(p):
                        owned.setdefault(os.path.dirname(p), set()).add(r[0])
            owned = {d: ws for d, ws in owned.items()
                     if len(ws) == 1 and os.path.basename(d) not in (
                         "train", "test", "holdout") and d != str(root)}
            for p, fin in log:
                d = os.path.dirname(p)
                ws = owned.get(d)
                if ws and not ws <= fin:
                    out["bad"].append(
                        ("parent-writes-into-running-writer",
                         f"{desc}: the parent wrote {p[len(str(root)) + 1:]} "
                         f"while writer {sorted(ws)[0]} of that directory "
                         f"was still running", case_))
                    break
            pbad, pkey = opseq.inspect(root, pds, ref, 2, fmt)
            keys.add(pkey)
            for prop, sym, msg in pbad:
                out["bad"].append((sym, f"{desc}: {msg}", case_))
        out["outcomes"] = len(keys)
    except Exception as e:  # pylint: disable=broad-except
        out["harness"] = f"{type(e).__name__}: {e} " + traceback.format_exc(
        )[-500:]
    finally:
        shutil.rmtree(box, ignore_errors=True)
    return out


def kw_feed(dataset_filler, w, items, tag="default", split=None):
    """feed_writer taking keyword arguments (custom_kwarguments)."""
    with dataset_filler as f:
        for sp, idt in items:
            f.write_example(values=D.example(tuple(idt)), split=split or sp)
    return (w, tag, split)


def kwargs_case(args) -> dict:
    """custom_kwarguments: every pattern of empty / non-empty keyword dicts
    over three writers; writer i must receive exactly entry i."""
    fmt, single = args
    out = {"spec": "kwargs", "fmt": fmt, "bad": [], "executions": 0,
           "harness": None, "outcomes": 0}
    box = core.fresh_dir("c09k")
    try:
        import itertools as it
        import multiprocessing
        multiprocessing.set_start_method("fork", force=True)
        options = [{}, {"tag": "t"}, {"split": "test"},
                   {"tag": "u", "split": "holdout"}]
        n = 0
        for pattern in it.product(range(len(options)), repeat=3):
            if len(set(pattern)) == 1 and pattern[0] != 0:
                continue
            n += 1
            root = box / f"d{n}"
            ds_ = D.create(root, fmt=fmt, eps=2)
            kws = [dict(options[i]) for i in pattern]
            writers = [[("train", (0, w, q)) for q in range(w + 1)]
                       for w in range(3)]
            ref: dict = {}
            for w, items in enumerate(writers):
                for sp, idt in items:
                    ref.setdefault(kws[w].get("split") or sp, []).append(idt)
            desc = (f"{fmt} custom_kwarguments={kws} "
                    f"single_process={single}")
            case_ = {"fmt": fmt, "kind": "kwargs", "single": single}
            out["executions"] += 1
            try:
                res = ds_.write_multiprocessing(
                    feed_writer=kw_feed,
                    custom_arguments=[(w, writers[w]) for w in range(3)],
                    custom_kwarguments=kws, single_process=single)
            except Exception as e:  # pylint: disable=broad-except
                out["bad"].append(("fails", f"{desc}: {type(e).__name__}: "
                                   f"{str(e)[:160]}", case_))
                continue
            want = [(w, kws[w].get("tag", "default"), kws[w].get("split"))
                    for w in range(3)]
            if [tuple(r) for r in res] != want:
                out["bad"].append(("kwargs", f"{desc}: the writers received "
                                   f"{[tuple(r) for r in res]}, expected "
                                   f"{want}", case_))
            pbad, _ = opseq.inspect(root, ds_, ref, 2, fmt)
            for prop, sym, msg in pbad:
                out["bad"].append((sym, f"{desc}: {msg}", case_))
            shutil.rmtree(root, ignore_errors=True)
        out["outcomes"] = n
    except Exception as e:  # pylint: disable=broad-except
        out["harness"] = f"{type(e).__name__}: {e} " + traceback.format_exc(
        )[-500:]
    finally:
        shutil.rmtree(box, ignore_errors=True)
    return out


# ---------------------------------------------------------------------------
# environment answer: the number of CPUs the library may look at
# ---------------------------------------------------------------------------
def env_case(args) -> dict:
    """Free-running workers (no gates: a correct library may well run fewer
    processes than writers), os.cpu_count() answering `cpu`."""
    fmt, spec, cpu, single = args
    out = {"spec": spec, "fmt": fmt, "bad": [], "executions": 0,
           "harness": None, "outcomes": 0}
    box = core.fresh_dir("c09e")
    real = os.cpu_count
    try:
        import multiprocessing
        multiprocessing.set_start_method("fork", force=True)
        from sedpack.io import Dataset
        ref: dict = {}
        writers = writers_of(spec)
        for items in writers:
            for sp, idt in items:
                ref.setdefault(sp, []).append(idt)
        root = box / "d"
        ds_ = D.create(root, fmt=fmt, eps=2)
        a = [(w, writers[w], -1, -1, str(root)) for w in range(len(writers))]
        desc = (f"{fmt} writers {spec} os.cpu_count()={cpu} "
                f"single_process={single}")
        case_ = {"fmt": fmt, "spec": spec, "cpu": cpu, "single": single,
                 "kind": "env"}
        os.cpu_count = lambda: cpu
        out["executions"] += 1
        try:
            res = D.with_alarm(120, lambda: ds_.write_multiprocessing(
                feed_writer=gated_feed, custom_arguments=a,
                single_process=single))
        except D.Watchdog:
            out["bad"].append(("hang", f"{desc}: no result after 120 s",
                               case_))
            return out
        except Exception as e:  # pylint: disable=broad-except
            out["bad"].append(("fails", f"{desc}: {type(e).__name__}: "
                               f"{str(e)[:200]}", case_))
            return out
        finally:
            os.cpu_count = real
        want_ret = [(w, [i for _, i in items])
                    for w, items in enumerate(writers)]
        got_ret = [(r[0], [tuple(i) for i in r[1]]) for r in res]
        if got_ret != want_ret:
            out["bad"].append(("return-values",
                               f"{desc}: return values {got_ret} expected "
                               f"{want_ret}", case_))
        pbad, _ = opseq.inspect(root, ds_, ref, 2, fmt)
        for prop, sym, msg in pbad:
            out["bad"].append((sym, f"{desc}: {msg}", case_))
        out["outcomes"] = 1
    except Exception as e:  # pylint: disable=broad-except
        out["harness"] = f"{type(e).__name__}: {e} " + traceback.format_exc(
        )[-500:]
    finally:
        os.cpu_count = real
        shutil.rmtree(box, ignore_errors=True)
    return out


# ---------------------------------------------------------------------------
# finer granularity: every file-system effect of a worker is a step
# ---------------------------------------------------------------------------
_GATE = {"on": False, "root": "", "w": -1, "req_w": -1, "go_r": -1}
_GHOOKED = False
GATED_EVENTS = {"open", "os.rename", "os.mkdir", "os.remove", "os.rmdir",
                "os.truncate", "os.link", "os.symlink", "os.listdir",
                "os.scandir"}


def _gate_audit(event, args):
    if not _GATE["on"] or event not in GATED_EVENTS:
        return
    p = args[0] if args else None
    if isinstance(p, bytes):
        p = p.decode(errors="ignore")
    if not isinstance(p, (str, os.PathLike)):
        return
    p = os.fspath(p)
    if not p.startswith(_GATE["root"]):
        return
    rel = p[len(_GATE["root"]):].lstrip("/")
    kind = event
    if event == "open":
        mode = args[1] if len(args) > 1 else ""
        flags = args[2] if len(args) > 2 else 0
        wr = (isinstance(mode, str) and any(c in mode for c in "wax+")) or (
            isinstance(flags, int) and flags & (os.O_WRONLY | os.O_RDWR))
        kind = "open-w" if wr else "open-r"
    _GATE["on"] = False  # no re-entrance while talking to the controller
    try:
        os.write(_GATE["req_w"],
                 f"{_GATE['w']}|{kind}|{rel[-60:]}\n".encode())
        if not os.read(_GATE["go_r"], 1):
            raise RuntimeError("controller went away")
    finally:
        _GATE["on"] = True


def effect_feed(dataset_filler, w, items, req_w, go_r, root):
    """feed_writer whose every file-system effect waits for the controller."""
    global _GHOOKED
    if not _GHOOKED:
        sys.addaudithook(_gate_audit)
        _GHOOKED = True
    _GATE.update(root=root, w=w, req_w=req_w, go_r=go_r)
    _GATE["on"] = True
    try:
        with dataset_filler as f:
            for split, idt in items:
                f.write_example(values=D.example(tuple(idt)), split=split)
    finally:
        _GATE["on"] = False
        os.write(req_w, f"{w}|done|\n".encode())
    return (w, [tuple(i) for _, i in items], [])


def play_effects(fmt: str, spec, chooser, root: Path):
    """One execution of the real multi-process call under a schedule of
    file-system effects decided by ``chooser``."""
    ds_ = D.create(root, fmt=fmt, eps=2)
    writers = writers_of(spec)
    k = len(writers)
    req = os.pipe()
    go = [os.pipe() for _ in range(k)]
    for r, w_ in [req] + go:
        os.set_inheritable(r, True)
        os.set_inheritable(w_, True)
    state = {"err": None, "steps": 0, "trace": []}

    def controller():
        pending: dict[int, str] = {}
        done: set[int] = set()
        running = set(range(k))  # workers that have not reported yet
        buf = b""
        last = None
        try:
            while len(done) < k:
                while running:
                    rd, _, _ = select.select([req[0]], [], [], 30)
                    if not rd:
                        state["err"] = (f"workers {sorted(running)} did not "
                                        f"report within 30 s")
                        return
                    buf += os.read(req[0], 4096)
                    while b"\n" in buf:
                        line, buf = buf.split(b"\n", 1)
                        w, kind, rel = line.decode().split("|", 2)
                        w = int(w)
                        running.discard(w)
                        if kind == "done":
                            done.add(w)
                            pending.pop(w, None)
                        else:
                            pending[w] = f"{kind} {rel}"
                if not pending:
                    continue
                enabled = sorted(pending)
                if last in pending:
                    enabled.remove(last)
                    enabled.insert(0, last)
                costs = [0] + [1 if enabled[0] == last else 0] * (
                    len(enabled) - 1)
                i = chooser.choose(len(enabled), costs=costs)
                w = enabled[i]
                state["steps"] += 1
                if len(state["trace"]) < 80:
                    state["trace"].append((w, pending[w]))
                del pending[w]
                running.add(w)
                last = w
                os.write(go[w][1], b"g")
        except Exception as e:  # pylint: disable=broad-except
            state["err"] = f"controller: {type(e).__name__}: {e}"
        finally:
            if state["err"]:
                for w in range(k):
                    try:
                        os.write(go[w][1], b"g" * 4096)
                    except OSError:
                        pass

    t = threading.Thread(target=controller, daemon=True)
    args = [(w, writers[w], req[1], go[w][0], str(root)) for w in range(k)]
    exc = None
    res = None
    t.start()
    try:
        res = ds_.write_multiprocessing(feed_writer=effect_feed,
                                        custom_arguments=args)
    except Exception as e:  # pylint: disable=broad-except
        exc = f"{type(e).__name__}: {str(e)[:200]}"
    t.join(60)
    for r, w_ in [req] + go:
        for fd in (r, w_):
            try:
                os.close(fd)
            except OSError:
                pass
    return ds_, res, exc or state["err"], state


def effect_case(args) -> dict:
    """DFS (preemption bounded) over the interleavings of the workers'
    file-system effects."""
    fmt, spec, bound = args
    from vf.explorer import Explorer, FixedChooser, Pruned
    out = {"spec": spec, "fmt": fmt, "bad": [], "executions": 0,
           "transitions": 0, "harness": None, "outcomes": 0, "max_steps": 0,
           "sample": None}
    box = core.fresh_dir("c09e")
    try:
        import multiprocessing
        multiprocessing.set_start_method("fork", force=True)
        from sedpack.io import Dataset
        seq_root = box / "seq"
        sds, sres, _ = play(fmt, spec, None, seq_root)
        ref: dict = {}
        for items in writers_of(spec):
            for sp, idt in items:
                ref.setdefault(sp, []).append(idt)
        sbad, skey = opseq.inspect(seq_root, sds, ref, 2, fmt)
        sseq = {sp: D.ids(Dataset(seq_root), sp, "sync") for sp in ref}
        keys = set()

        def run(ch):
            root = box / "par"
            shutil.rmtree(root, ignore_errors=True)
            pds, pres, err, st = play_effects(fmt, spec, ch, root)
            bad = []
            if err:
                bad.append(("fails", str(err)))
            else:
                want_ret = [(w, [i for _, i in items])
                            for w, items in enumerate(writers_of(spec))]
                got_ret = [(r[0], [tuple(i) for i in r[1]]) for r in pres]
                if got_ret != want_ret:
                    bad.append(("return-values", f"return values {got_ret}"))
                pbad, pkey = opseq.inspect(root, pds, ref, 2, fmt)
                keys.add(pkey)
                bad += [(sym, msg) for _, sym, msg in pbad]
                if pkey != skey and not pbad:
                    bad.append(("differs-from-sequential",
                                "metadata tree differs from the "
                                "one-after-another run"))
                try:
                    pseq = {sp: D.ids(Dataset(root), sp, "sync")
                            for sp in ref}
                except Exception as e:  # pylint: disable=broad-except
                    pseq = f"{type(e).__name__}: {str(e)[:120]}"
                if pseq != sseq:
                    bad.append(("order", f"iteration gives {pseq}, the "
                                         f"one-after-another run {sseq}"))
            return bad, st

        def on_result(choices, r):
            bad, st = r
            out["max_steps"] = max(out["max_steps"], st["steps"])
            if out["sample"] is None:
                out["sample"] = st["trace"][:12]
            for sym, msg in bad[:3]:
                out["bad"].append(
                    (sym, f"{fmt} writers {spec}, schedule of file-system "
                          f"effects {choices}: {msg}",
                     {"fmt": fmt, "spec": spec, "choices": choices,
                      "effects": True}))

        ex = Explorer(run, bound=bound, cache=False, max_executions=6000)
        ex.explore(on_result)
        out["executions"] = ex.executions
        out["transitions"] = ex.transitions
        out["outcomes"] = len(keys)
        if ex.capped:
            out["harness"] = "effect-level exploration capped"
    except Exception as e:  # pylint: disable=broad-except
        out["harness"] = f"{type(e).__name__}: {e} " + traceback.format_exc(
        )[-500:]
    finally:
        shutil.rmtree(box, ignore_errors=True)
    return out


SPECS = [
    [[("train", 3)], [("train", 1)]],
    [[("train", 2)], [("train", 2)]],
    [[], [("train", 2)]],
    [[("train", 1)], [("test", 1)], [("train", 1)]],
    [[("train", 2)], [], [("holdout", 1)]],
    [[("train", 1), ("test", 1)], [("test", 1), ("train", 1)]],
    [[("train", 3)]],
]


def run(ctx):
    tasks = []
    specs = list(SPECS)
    if ctx.tier == "thorough":
        specs += [
            [[("train", 2)], [("train", 1)], [], [("test", 2)]],
            [[("train", 4)], [("train", 3)]],
            [[("train", 1), ("test", 2)], [("holdout", 1), ("train", 2)],
             [("test", 1)]],
        ]
    for fmt in ("fb", "npz", "tfrec"):
        for spec in specs:
            counts = [sum(n for _, n in parts) + 1 for parts in spec]
            orders = list(interleavings(counts))
            if ctx.tier == "quick" and fmt != "fb":
                orders = orders[::3]
            if len(orders) > 400:
                orders = orders[::len(orders) // 400 + 1]
            n = max(1, min(8, len(orders) // 10))
            for i in range(n):
                tasks.append((fmt, spec, orders[i::n]))
    with core.pool() as ex:
        ne = 0
        for r in ex.map(case, tasks):
            if r["harness"]:
                ctx.harness_error(f"{r['spec']}: {r['harness']}")
                continue
            ne += r["executions"]
            ctx.add(states=r["outcomes"], transitions=sum(
                len(o) for o in [[]]) + r["executions"],
                    traces_validated_against_impl=r["executions"])
            for sym, msg, c in r["bad"]:
                ctx.violation({"engine": "procgates", "symptom": sym,
                               "fmt": r["fmt"]}, msg, c)
        stasks = []
        for fmt_, spec_ in (("fb", SPECS[1]), ("fb", SPECS[0]),
                            ("npz", SPECS[5])):
            counts = [sum(n for _, n in parts) + 1 for parts in spec_]
            orders = list(interleavings(counts))
            if ctx.tier == "quick":
                orders = orders[::3]
            n = max(1, min(6, len(orders) // 4))
            stasks += [(fmt_, spec_, orders[i::n]) for i in range(n)]
        ns = 0
        for r in ex.map(second_call_case, stasks):
            if r["harness"]:
                ctx.harness_error(f"second call {r['spec']}: {r['harness']}")
                continue
            ns += r["executions"]
            ctx.add(states=r["outcomes"], transitions=r["executions"],
                    traces_validated_against_impl=r["executions"])
            for sym, msg, c in r["bad"]:
                ctx.violation({"engine": "procgates", "symptom": sym,
                               "fmt": r["fmt"], "call": "second"}, msg, c)
        ctx.part("a second multi-writer call on a dataset holding the first "
                 "one: interleavings of the writers' steps, recount, and no "
                 "parent write into a running writer's directory",
                 executions=ns)
        nk = 0
        for r in ex.map(kwargs_case, [("fb", True), ("fb", False)]):
            if r["harness"]:
                ctx.harness_error(f"kwargs: {r['harness']}")
                continue
            nk += r["executions"]
            ctx.add(states=r["outcomes"], transitions=r["executions"],
                    traces_validated_against_impl=r["executions"])
            for sym, msg, c in r["bad"]:
                ctx.violation({"engine": "kwargs", "symptom": sym,
                               "fmt": r["fmt"]}, msg, c)
        ctx.part("custom_kwarguments: every pattern of 4 keyword dicts "
                 "(empty, tag, split, both) over three writers, pool and "
                 "single process", executions=nk)
        wide = [[("train", 1)], [("test", 2)], [], [("train", 3), ("test", 1)],
                [("holdout", 1)], [("train", 2)]]
        vtasks = [(f, sp, cpu, single)
                  for f in (("fb", "npz", "tfrec") if ctx.tier == "thorough"
                            else ("fb",))
                  for sp in (SPECS[1], SPECS[3], wide)
                  for cpu in (1, 2, 3, None)
                  for single in (False, True)]
        # more writers than one decimal digit counts
        wide12 = [[("train", 1)], [("test", 2)], [("train", 2)]] * 4
        vtasks += [("fb", wide12, cpu, single) for cpu in (None, 4)
                   for single in (False, True)]
        nv = 0
        for r in ex.map(env_case, vtasks):
            if r["harness"]:
                ctx.harness_error(f"env {r['spec']}: {r['harness']}")
                continue
            nv += r["executions"]
            ctx.add(states=r["outcomes"], transitions=r["executions"],
                    traces_validated_against_impl=r["executions"])
            for sym, msg, c in r["bad"]:
                ctx.violation({"engine": "env", "symptom": sym,
                               "fmt": r["fmt"]}, msg, c)
        ctx.part("environment answers: os.cpu_count() in 1,2,3,None below / "
                 "at / above the number of writers x pool or single process "
                 "(free-running workers, full recount oracle)",
                 cases=len(vtasks), executions=nv)
        etasks = [("fb", SPECS[0], 1), ("fb", SPECS[1], 1), ("fb", SPECS[3], 1),
                  ("fb", SPECS[5], 1), ("npz", SPECS[1], 1),
                  ("tfrec", SPECS[0], 1)]
        if ctx.tier == "thorough":
            # three busy writers: bound 2 exceeds the execution cap
            etasks = [(f, sp, 1 if sum(1 for w in sp if w) >= 3 else 2)
                      for f in ("fb", "npz", "tfrec") for sp in SPECS[:6]]
        ee = et = 0
        smp = None
        for r in ex.map(effect_case, etasks):
            if r["harness"]:
                ctx.harness_error(f"effects {r['spec']}: {r['harness']}")
                continue
            ee += r["executions"]
            et += r["transitions"]
            smp = smp or r["sample"]
            ctx.add(states=r["outcomes"], transitions=r["transitions"],
                    traces_validated_against_impl=r["executions"])
            for sym, msg, c in r["bad"]:
                ctx.violation({"engine": "procgates", "symptom": sym,
                               "fmt": r["fmt"], "granularity": "effects"},
                              msg, c)
        ctx.part("file-system-effect granularity: every open / rename / "
                 "mkdir of a worker inside the dataset is a step; preemption "
                 f"bound {'2 (1 for three busy writers)' if ctx.tier == 'thorough' else 1}",
                 writer_lists=len(etasks), executions=ee, transitions=et)
        if smp:
            ctx.sample({"effects_schedule": smp})
    ctx.part("writer lists x every interleaving of the writers' steps (real "
             "worker processes)", writer_lists=len(specs), executions=ne,
             note="quick: every interleaving for fb, every third for npz and "
                  "tfrec; lists with more than 400 interleavings are "
                  "subsampled evenly (thorough only)")
    ctx.sample({"writers": SPECS[3], "interleaving": [0, 1, 2, 2, 1, 0],
                "step": "one write_example, or leaving the filler context"})
    ctx.cov["exhaustive"] = True
    ctx.cov["explanation"] = (
        "the real write_multiprocessing (fork pool) with a feed_writer that "
        "waits on an inherited pipe before every write_example and before "
        "leaving the filler context; a controller thread plays every "
        "distinct interleaving of the writers' steps (15-90 per writer "
        "list); oracle: same canonical metadata tree and iteration "
        "sequence as the single_process=True run, full C04 recount and "
        "check() pass, return values in argument order, write-opened paths "
        "of the workers (audit hook in every worker) pairwise disjoint")
    ctx.assumptions[:] = [
        "step granularity: whole write_example calls and the context exit "
        "(the processes share nothing but the file system)",
        "fork start method (the library's default on Linux)",
    ]


def replay(case_):
    core.import_sedpack_quietly()
    if case_.get("kind") == "kwargs":
        r = kwargs_case((case_["fmt"], case_["single"]))
        return [m for _, m, _ in r["bad"]]
    spec = [[tuple(p) for p in w] for w in case_["spec"]]
    if case_.get("effects"):
        from vf.explorer import FixedChooser
        import multiprocessing
        multiprocessing.set_start_method("fork", force=True)
        box = core.fresh_dir("c09r")
        try:
            _, _, err, _ = play_effects(case_["fmt"], spec,
                                        FixedChooser(case_["choices"]),
                                        box / "par")
            r = effect_case((case_["fmt"], spec, 0))
            return ([str(err)] if err else []) + [m for _, m, _ in r["bad"]]
        finally:
            shutil.rmtree(box, ignore_errors=True)
    if case_.get("kind") == "kwargs":
        r = kwargs_case((case_["fmt"], case_["single"]))
        return [m for _, m, _ in r["bad"]]
    if case_.get("kind") == "second":
        r = second_call_case((case_["fmt"], spec, [case_["order"]]))
        return [m for _, m, _ in r["bad"]]
    if case_.get("kind") == "env":
        r = env_case((case_["fmt"], spec, case_["cpu"], case_["single"]))
        return [m for _, m, _ in r["bad"]]
    r = case((case_["fmt"], spec,
              [case_["order"]] if case_.get("order") is not None else []))
    return [m for _, m, _ in r["bad"]]
