"""C19: repeating iteration cycles through the whole split forever."""
import collections
import shutil
import traceback

from vf import core, dsfamily, ds as D, dataset_mc

TAGS = {"C19"}


def _tag(ex):
    """process_record: fails when applied to its own output."""
    return ("tag", D.to_id(ex))


def repeat_case(args) -> dict:
    name, tier = args
    root = core.fresh_dir("c19")
    out = {"name": name, "bad": [], "streams": 0, "harness": None}
    try:
        from sedpack.io import Dataset
        _, ref = dsfamily.build(root, name)
        fmt = (dsfamily.RECIPES.get(name) or dsfamily.EXTRA[name])[0]
        ds_ = Dataset(root)
        for split, want in ref.items():
            N = len(want)
            S = dsfamily.n_shards(ds_, split)
            one_all = D.ids(ds_, split, "sync")
            infos = list(ds_.shard_info_iterator(split))
            first_file = {str(infos[0].file_infos[0].file_path)}
            # shard selection options restrict the "split" that is cycled
            sels = [("", {})]
            if S >= 2:
                sels.append((" shards=1", {"shards": 1}))
                if S >= 3:
                    sels.append((f" shards={S - 1}", {"shards": S - 1}))
                sels.append((" filter=not-first", {
                    "shard_filter": lambda si, ff=first_file: str(
                        si.file_infos[0].file_path) not in ff}))
            for sname, sel in sels:
              one = one_all if not sel else D.ids(ds_, split, "sync", **sel)
              want_sel = one
              N = len(one)
              k = 3 * N + 2
              for iface in dsfamily.interfaces(fmt, with_rust=True):
                for sh in ((0, 2, N + 5) if not sel else (0, 2)):
                    for par in (((1, 2, S + 2) if not sel else (1, S + 2))
                                if iface != "sync" else (None,)):
                        kw = {"shuffle": sh, **sel}  # repeat at its default
                        if par:
                            kw["file_parallelism"] = par
                        if iface == "tf" and par == 2:
                            kw["batch_size"] = 2
                        # a caller-supplied transformation that is not
                        # idempotent: every epoch must apply it exactly once
                        # to the stored example
                        tagged = (iface in ("sync", "concurrent", "async")
                                  and not sel and (sh + (par or 0)) % 2 == 0)
                        if tagged:
                            kw["process_record"] = _tag
                        try:
                            got = D.with_alarm(
                                120, lambda: [
                                    (e[1] if tagged else D.to_id(e))
                                    for e in D.take(ds_, split, iface, k,
                                                    **kw)])
                        except Exception as e:  # pylint: disable=broad-except
                            out["bad"].append(
                                ("raises", iface,
                                 f"{name}/{split} {iface} {kw}: "
                                 f"{type(e).__name__}: {str(e)[:120]}"))
                            continue
                        out["streams"] += 1
                        kshow = {a: (b if a != "process_record" else "tag")
                                 for a, b in kw.items()
                                 if a != "shard_filter"}
                        desc = f"{name}/{split} {iface} {kshow}{sname}"
                        if len(got) != k:
                            out["bad"].append(
                                ("finite", iface,
                                 f"{desc}: default (repeating) stream ended "
                                 f"after {len(got)} < {k} examples"))
                            continue
                        if set(got) - set(want_sel):
                            out["bad"].append(
                                ("foreign", iface,
                                 f"{desc}: examples outside of the selected "
                                 f"part of the split "
                                 f"{sorted(set(got) - set(want_sel))}"))
                        if sh == 0:
                            exp = [one[i % N] for i in range(k)]
                            if got != exp:
                                out["bad"].append(
                                    ("period", iface,
                                     f"{desc}: stream {got} is not the "
                                     f"one-pass sequence {one} repeated"))
                        if iface == "rust":
                            for b in range(0, k - N + 1, N):
                                blk = got[b:b + N]
                                if collections.Counter(
                                        blk) != collections.Counter(want_sel):
                                    out["bad"].append(
                                        ("epoch", iface,
                                         f"{desc}: epoch {b // N} = {blk} is "
                                         f"not a permutation of the selected "
                                         f"examples"))
                                    break
            one = one_all
            N = len(one)
            # abandon a Rust stream and start a fresh one
            if fmt == "fb":
                for cut in (1, N, N + 1):
                    a = [D.to_id(e) for e in D.take(ds_, split, "rust", cut,
                                                    shuffle=0)]
                    b = [D.to_id(e) for e in D.take(ds_, split, "rust", 2 * N,
                                                    shuffle=0)]
                    out["streams"] += 2
                    if a != one[:cut] + one[:max(0, cut - N)] or b != one + one:
                        out["bad"].append(
                            ("reenter", "rust",
                             f"{name}/{split}: after abandoning a Rust "
                             f"stream at {cut} a fresh stream yields {b}"))
    except Exception as e:  # pylint: disable=broad-except
        out["harness"] = f"{type(e).__name__}: {e} " + traceback.format_exc(
        )[-400:]
    finally:
        shutil.rmtree(root, ignore_errors=True)
    return out


def long_case(args) -> dict:
    """Many epochs of a tiny split (anything that accumulates per epoch:
    recursion depth, counters, buffers)."""
    name, iface, sh, epochs = args
    root = core.fresh_dir("c19l")
    out = {"name": name, "bad": [], "streams": 0, "harness": None}
    try:
        from sedpack.io import Dataset
        _, ref = dsfamily.build(root, name)
        ds_ = Dataset(root)
        split = "train"
        one = D.ids(ds_, split, "sync")
        N = len(one)
        k = epochs * N + 1
        kw = {"shuffle": sh}
        if iface != "sync":
            kw["file_parallelism"] = 2
        desc = f"{name}/{split} {iface} {kw} over {epochs} epochs"
        try:
            got = D.with_alarm(300, lambda: [D.to_id(e) for e in D.take(
                ds_, split, iface, k, **kw)])
        except Exception as e:  # pylint: disable=broad-except
            out["bad"].append(("raises", iface,
                               f"{desc}: {type(e).__name__}: "
                               f"{str(e)[:120]}"))
            return out
        out["streams"] += 1
        if len(got) != k:
            out["bad"].append(("finite", iface,
                               f"{desc}: the repeating stream ended after "
                               f"{len(got)} < {k} examples"))
        elif set(got) - set(one):
            out["bad"].append(("foreign", iface, f"{desc}: foreign examples"))
        elif sh == 0 and got != [one[i % N] for i in range(k)]:
            out["bad"].append(("period", iface,
                               f"{desc}: not the one-pass sequence repeated"))
        elif sh:
            cnt = collections.Counter(got)
            if max(cnt.values()) - min(cnt.values()) > max(
                    4, 2 * sh + 4) or len(cnt) != N:
                out["bad"].append(
                    ("unbalanced", iface,
                     f"{desc}: examples do not recur equally often: "
                     f"{sorted(cnt.values())}"))
    except Exception as e:  # pylint: disable=broad-except
        out["harness"] = f"{type(e).__name__}: {e} " + traceback.format_exc(
        )[-400:]
    finally:
        shutil.rmtree(root, ignore_errors=True)
    return out


def run(ctx):
    from vf import rustbuild
    rustbuild.ensure_ext()
    with core.pool() as ex:
        tot = 0
        for r in ex.map(repeat_case,
                        [(n, ctx.tier) for n in dsfamily.RECIPES]):
            if r["harness"]:
                ctx.harness_error(f"{r['name']}: {r['harness']}")
                continue
            tot += r["streams"]
            for sym, iface, msg in r["bad"]:
                ctx.violation({"engine": "dataset", "symptom": sym,
                               "iface": iface}, msg,
                              {"kind": "repeat", "name": r["name"]})
        ctx.part("prefixes of 3N+2 examples of the default (repeating) "
                 "stream: recipes x interfaces x shuffle x parallelism",
                 streams=tot)
        ctx.add(states=tot, transitions=tot,
                traces_validated_against_impl=tot)
        ctx.sample({"recipe": "flat", "split": "train", "iface": "rust",
                    "take": "3N+2", "oracle": "every block of N is a "
                                              "permutation of the split"})
        E = 1300 if ctx.tier == "quick" else 5000
        longs = [("flat", i, sh, E) for i in ("sync", "concurrent", "async")
                 for sh in (0, 2)] + [("flat", "rust", 0, E),
                                      ("npz", "concurrent", 3, E)]
        nl = 0
        for r in ex.map(long_case, longs):
            if r["harness"]:
                ctx.harness_error(f"long {r['name']}: {r['harness']}")
                continue
            nl += r["streams"]
            for sym, iface, msg in r["bad"]:
                ctx.violation({"engine": "dataset", "symptom": sym,
                               "iface": iface, "long": True}, msg,
                              {"kind": "long", "name": r["name"]})
        ctx.part(f"{E} epochs of a tiny split (per-epoch accumulation)",
                 streams=nl)
        ctx.add(states=nl, transitions=nl * E,
                traces_validated_against_impl=nl)
        dataset_mc.run_controlled(ctx, ex, TAGS, what="take")
    ctx.cov["exhaustive"] = True
    ctx.cov["explanation"] = (
        "for every dataset of the family and every interface the first "
        "3N+2 examples of the stream with repeat left at its default: all "
        "from the split (also when restricted by shards=k or a shard "
        "predicate: then from the selected shards); unshuffled = one-pass "
        "sequence repeated; Rust: "
        "every epoch a permutation; abandoned Rust streams followed by "
        "fresh ones; shuffled Python paths with the random draws and pool "
        "interleavings enumerated under a deviation bound")
    ctx.assumptions[:] = [
        "stream prefixes of 3 epochs + 2; tf.data / Rust on the OS schedule",
    ]


def replay(case):
    if case.get("kind") == "controlled":
        return dataset_mc.replay(case)
    core.import_sedpack_quietly()
    if case.get("kind") == "long":
        bad = []
        for i in ("sync", "concurrent", "async"):
            for sh in (0, 2):
                bad += [m for _, _, m in long_case((case["name"], i, sh,
                                                    1300))["bad"]]
        return bad
    r = repeat_case((case["name"], "quick"))
    return [m for _, _, m in r["bad"]]
