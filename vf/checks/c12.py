"""C12: shard selection options mean the same in every iteration interface."""
from __future__ import annotations

import collections
import shutil
import traceback

from vf import core, ds as D

# metadata group of each shard to be produced (eps=2): 6 shards
LAYOUTS = {
    "g6": ["A", "A", "B", None, "A", "B"],
    "g5": [None, "A", "B", "B", "A"],
    "one": ["A"],
    # nested shard lists: shards of the root list, then of the child list x;
    # "AB" is a two-key label written with two different key orders
    "nest": ["A", None, "AB", "|", "BA", "A", None],
    # label values that differ only in type (int 1 vs str "1")
    "types": ["i1", "s1", "i1", None, "s1", "i1"],
    # booleans next to the equal numbers (True == 1, False == 0 in Python)
    "bools": ["i1", "b1", "i1", "b1", None, "i0", "b0", "b0"],
    # two child lists (x, y) next to the root list's own shards
    "nest2": ["A", None, "|", "B", "A", "A", "|", None, "B", "B"],
    # a later session into x / into y dies before it is merged
    "stale-x": ["A", None, "|", "B", "A", "|", None, "B", "!x", "A", "B"],
    "stale-y": ["A", None, "|", "B", "A", "|", None, "B", "!y", "B", "A"],
    # a bushy list tree: a shallow directory listed after a deeper one,
    # several lists per depth (listing order = pre-order walk)
    "bushy": ["A", None, ">c", "B", "A", ">a/b", None, "B", ">e", "B"],
    "bushy2": [">p", "A", "B", ">q/r/s", "A", None, ">q/t", "B", ">u", None],
}
ACCEPTS = {
    "sync": {"shards", "limit", "filter"},
    "concurrent": {"shards", "limit", "filter"},
    "async": {"shards", "filter"},
    "rust": {"shards", "filter"},
    "tf": {"shards", "limit", "filter"},
}


def label(g):
    if g is None:
        return None
    if g == "AB":
        return {"g": "AB", "h": [1, 2]}
    if g == "BA":  # same value, other insertion order of the keys
        return {"h": [1, 2], "g": "AB"}
    if g == "i1":
        return {"g": 1}
    if g == "s1":
        return {"g": "1"}
    if g in ("b1", "b0"):  # JSON true / false next to the numbers 1 / 0
        return {"g": g == "b1"}
    if g == "i0":
        return {"g": 0}
    return {"g": g}


def build(root, fmt: str, layout: list):
    """Shard i holds 2 examples (the last one of a session 1) and carries the
    metadata group layout[i]; "|" starts a second session in sub-directory
    x (nested shard list); "!x" starts a session into the already used
    sub-directory x that is never completed (the writer dies: the child list
    on disk is ahead of what its parent records)."""
    from pathlib import Path
    from sedpack.io.dataset_filler import DatasetFiller
    ds_ = D.create(root, fmt=fmt, eps=2)
    q = 0
    shards = []
    sessions = [[None, False, []]]
    for g in layout:
        if g == "|":
            sessions.append(["xyzw"[min(len(sessions) - 1, 3)], False, []])
        elif isinstance(g, str) and g.startswith("!"):
            sessions.append([g[1:], True, []])
        elif isinstance(g, str) and g.startswith(">"):
            sessions.append([g[1:], False, []])  # session into that directory
        else:
            sessions[-1][2].append(g)
    many = len(sessions) >= 3
    for si, (sub, interrupted, groups) in enumerate(sessions):
        filler = ds_.filler() if sub is None else DatasetFiller(
            ds_, relative_path_from_split=Path(sub))
        f = filler.__enter__()
        for i, g in enumerate(groups):
            n = 1 if (i == len(groups) - 1 and not many) else 2
            members = []
            for _ in range(n):
                f.write_example(values=D.example((0, 0, q)),
                                split="train", custom_metadata=label(g))
                members.append((0, 0, q))
                q += 1
            shards.append(("AB" if g == "BA" else g, members))
        if si == 0:
            f.write_example(values=D.example((0, 9, 0)), split="test")
        if interrupted:
            # one more example closes the last full shard (progress is saved
            # per closed shard); it sits in a shard that never reaches the
            # disk, and the session is never merged
            f.write_example(values=D.example((0, 8, q)), split="train",
                            custom_metadata=label(groups[-1]))
            del f, filler
        else:
            filler.__exit__(None, None, None)
    return ds_, shards


def pred(kind):
    if kind == "none":
        return lambda s: False
    if kind == "all":
        return lambda s: True
    if kind == "some":
        return lambda s: s.number_of_examples == 2
    if kind == "A":
        return lambda s: s.custom_metadata.get("g") in ("A", "AB")
    if kind == "nometa":
        return lambda s: not s.custom_metadata
    raise ValueError(kind)


def expected(shards_true: list, k, pk, n):
    """Documented meaning: predicate, then first k, then first n per group."""
    sel = list(shards_true)
    if pk is not None:
        fn = {"none": lambda g, m: False, "all": lambda g, m: True,
              "some": lambda g, m: len(m) == 2, "A": lambda g, m: g in ("A", "AB"),
              "nometa": lambda g, m: g is None}[pk]
        sel = [s for s in sel if fn(*s)]
    if not sel:
        return None  # must raise
    if k:
        sel = sel[:k]
    if n:
        cnt = collections.Counter()
        out = []
        for g, m in sel:
            cnt[g] += 1
            if cnt[g] <= n:
                out.append((g, m))
        sel = out
    return [i for _, m in sel for i in m]


def case(args) -> dict:
    fmt, lname = args
    root = core.fresh_dir("c12")
    out = {"fmt": fmt, "layout": lname, "bad": [], "cells": 0,
           "harness": None}
    try:
        from sedpack.io import Dataset
        _, shards_true = build(root, fmt, LAYOUTS[lname])
        ds_ = Dataset(root)
        # sanity: the listing really has the intended groups
        def gname(md):
            g = md.get("g")
            if isinstance(g, bool):
                return "b1" if g else "b0"
            if isinstance(g, int):
                return {1: "i1", 0: "i0"}.get(g, g)
            return {"1": "s1"}.get(g, g)

        listed = [(gname(s.custom_metadata), s.number_of_examples)
                  for s in ds_.shard_info_iterator("train")]
        if sorted(listed, key=repr) != sorted(
                [(g, len(m)) for g, m in shards_true], key=repr):
            out["harness"] = f"layout not realised: {listed}"
            return out
        # ground truth in LISTING order (the order of child lists across
        # sessions is not what this property is about): group from the
        # recorded metadata, members by decoding every shard file directly
        shards_true = [
            (gname(s.custom_metadata),
             D.decode_shard(ds_.dataset_structure,
                            ds_.path / s.file_infos[0].file_path))
            for s in ds_.shard_info_iterator("train")
        ]
        S = len(shards_true)
        ifaces = [i for i in ("sync", "concurrent", "async", "rust", "tf")
                  if not (i == "async" and fmt == "tfrec") and
                  not (i == "rust" and fmt != "fb")]
        ks = [None] + list(range(1, S + 2))
        pks = [None, "none", "all", "some", "A", "nometa"]
        ns = [None, 1, 2, S + 1]
        for k in ks:
            for pk in pks:
                for n in ns:
                    single = sum(x is not None for x in (k, pk, n)) <= 1
                    want = expected(shards_true, k, pk, n)
                    results = {}
                    for iface in ifaces:
                        acc = ACCEPTS[iface]
                        if (k and "shards" not in acc) or (
                                n and "limit" not in acc) or (
                                    pk and "filter" not in acc):
                            continue
                        kw = {}
                        if k is not None:
                            kw["shards"] = k
                        if pk is not None:
                            kw["shard_filter"] = pred(pk)
                        if n is not None:
                            kw["custom_metadata_type_limit"] = n
                        out["cells"] += 1
                        try:
                            got = D.with_alarm(
                                90, lambda: D.ids(ds_, "train", iface, **kw))
                            results[iface] = sorted(got)
                        except D.Watchdog:
                            results[iface] = "HANG"
                        except Exception as e:  # pylint: disable=broad-except
                            results[iface] = f"raises {type(e).__name__}"
                        # the same selection on a shuffled pass (the option
                        # selects shards, shuffling only reorders them)
                        if single and want is not None and iface != "tf" \
                                and isinstance(results[iface], list):
                            out["cells"] += 1
                            try:
                                got2 = sorted(D.with_alarm(
                                    90, lambda: D.ids(ds_, "train", iface,
                                                      shuffle=3, **kw)))
                            except Exception as e:  # pylint: disable=broad-except
                                got2 = f"raises {type(e).__name__}"
                            if got2 != sorted(want):
                                out["bad"].append(
                                    ({"symptom": "single-option-shuffled",
                                      "iface": iface},
                                     f"{fmt}/{lname} shards={k} filter={pk} "
                                     f"type_limit={n} shuffle=3: {iface} "
                                     f"yields {got2}, examples of the "
                                     f"selected shards are {sorted(want)}",
                                     {"iface": iface, "k": k, "pk": pk,
                                      "n": n}))
                    desc = (f"{fmt}/{lname} shards={k} filter={pk} "
                            f"type_limit={n}")
                    for iface, got in results.items():
                        opt = {"iface": iface, "k": k, "pk": pk, "n": n}
                        if want is None:
                            if not (isinstance(got, str) and
                                    got.startswith("raises")):
                                out["bad"].append(
                                    ({"symptom": "empty-selection",
                                      "iface": iface},
                                     f"{desc}: selection matches no shard "
                                     f"but {iface} returned {got} instead "
                                     f"of raising", opt))
                        elif single:
                            if got != sorted(want):
                                out["bad"].append(
                                    ({"symptom": "single-option",
                                      "iface": iface,
                                      "option": "shards" if k else (
                                          "filter" if pk else "limit")},
                                     f"{desc}: {iface} yields {got}, "
                                     f"examples of the selected shards are "
                                     f"{sorted(want)}", opt))
                    if want is not None and not single:
                        vals = {str(v) for v in results.values()}
                        if len(vals) > 1:
                            out["bad"].append(
                                ({"symptom": "interfaces-disagree"},
                                 f"{desc}: interfaces disagree: {results}",
                                 {"k": k, "pk": pk, "n": n}))
    except Exception as e:  # pylint: disable=broad-except
        out["harness"] = f"{type(e).__name__}: {e} " + traceback.format_exc(
        )[-400:]
    finally:
        shutil.rmtree(root, ignore_errors=True)
    return out


def run(ctx):
    from vf import rustbuild
    rustbuild.ensure_ext()
    tasks = [("fb", "g6"), ("fb", "g5"), ("npz", "g6"), ("tfrec", "g5"),
             ("fb", "one"), ("fb", "nest"), ("npz", "nest"), ("fb", "types"), ("fb", "bools"), ("npz", "bools"),
             ("fb", "nest2"), ("tfrec", "nest2"), ("fb", "stale-x"),
             ("fb", "stale-y"), ("npz", "stale-y"), ("fb", "bushy"),
             ("npz", "bushy"), ("fb", "bushy2")]
    if ctx.tier == "thorough":
        tasks += [("npz", "g5"), ("tfrec", "g6"), ("npz", "one"),
                  ("tfrec", "one"), ("npz", "stale-x"), ("tfrec", "stale-x"),
                  ("tfrec", "stale-y")]
    with core.pool() as ex:
        tot = 0
        for r in ex.map(case, tasks):
            if r["harness"]:
                ctx.harness_error(f"{r['fmt']}/{r['layout']}: "
                                  f"{r['harness']}")
                continue
            tot += r["cells"]
            for sig, msg, opt in r["bad"]:
                ctx.violation(dict(sig, engine="grid", fmt=r["fmt"]), msg,
                              {"fmt": r["fmt"], "layout": r["layout"],
                               **opt})
    ctx.part("option grid", datasets=len(tasks), cells=tot)
    ctx.add(evaluations=tot, distinct_nontrivial=tot)
    ctx.sample({"dataset": "fb g6 (shard groups A A B - A B)", "shards": 4,
                "filter": "A", "type_limit": 1, "interfaces":
                "sync, concurrent, tf"})
    ctx.cov["rule"] = (
        "cell = (dataset, shards k in None,1..S+1, predicate in None/none/"
        "all/some/by-group/no-metadata, custom_metadata_type_limit in "
        "None,1,2,S+1, interface accepting the options); single options are "
        "compared (unshuffled and with shuffle=3) with the documented "
        "meaning computed from the known shard "
        "contents, combinations are compared across interfaces, an empty "
        "selection must raise in every interface")
    ctx.cov["exhaustive"] = True
    ctx.assumptions[:] = [
        "for combinations of options only agreement between interfaces is "
        "required (the statement defines each option alone)",
    ]


def replay(case_):
    core.import_sedpack_quietly()
    r = case((case_["fmt"], case_["layout"]))
    return [m for s, m, o in r["bad"]
            if (o.get("k"), o.get("pk"), o.get("n")) == (
                case_.get("k"), case_.get("pk"), case_.get("n")) and
            o.get("iface") == case_.get("iface")]
