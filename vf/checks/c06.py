"""C06: a writer crash never corrupts or loses committed data (E4)."""
from __future__ import annotations

import collections
import hashlib
import itertools
import json
import shutil
import traceback
from pathlib import Path

from vf import core, crash, ds as D

META = ("dataset_info.json", "shards_list.json")
SHARD_EXT = (".fb", ".npz", ".tfrec")


def is_meta(rel: str) -> bool:
    return rel.rsplit("/", 1)[-1] in META


# ---------------------------------------------------------------------------
# oracle on one crash state (runs in a worker)
# ---------------------------------------------------------------------------
def judge_state(args) -> dict:
    tree, fmt, ctx_ = args
    committed = {k: [tuple(i) for i in v]
                 for k, v in ctx_["committed"].items()}
    allowed = {k: [tuple(i) for i in v] for k, v in ctx_["allowed"].items()}
    installed = ctx_["installed"]
    bad: list[tuple[str, str]] = []
    root = core.fresh_dir("cs")
    try:
        for rel, data in tree.items():
            q = root / rel
            q.parent.mkdir(parents=True, exist_ok=True)
            q.write_bytes(data)
        from sedpack.io import Dataset
        from sedpack.io.metadata import DatasetInfo
        from sedpack.io.shard_file_metadata import ShardsList
        # (1) every metadata file is a complete valid installed version
        for rel, data in tree.items():
            name = rel.rsplit("/", 1)[-1]
            if name not in META:
                continue
            try:
                if name == "dataset_info.json":
                    DatasetInfo.model_validate_json(data.decode("utf-8"))
                else:
                    ShardsList.model_validate_json(data.decode("utf-8"))
            except Exception as e:  # pylint: disable=broad-except
                bad.append(("meta-invalid",
                            f"{rel} is not a complete valid document "
                            f"({type(e).__name__}, {len(data)} bytes)"))
                continue
            h = hashlib.sha1(data).hexdigest()
            if h not in installed.get(rel, ()):
                bad.append(("meta-uninstalled",
                            f"{rel} holds a version that no completed "
                            f"rename/close installed"))
        # (2) the dataset opens and verifies
        if "dataset_info.json" not in tree:
            if ctx_["created"]:
                bad.append(("description-lost",
                            "dataset_info.json disappeared after create"))
            return {"bad": bad}
        if not ctx_["created"] and any(
                b[0].startswith("meta") for b in bad):
            return {"bad": bad}
        # (the statement asks for the *shards* to match their recorded
        # checksums; the recorded checksum of a shard *list* is legitimately
        # stale while a session is running, so check() is not the oracle)
        try:
            dataset = Dataset(root)
            algos = dataset.dataset_structure.hash_checksum_algorithms
            for info_ in dataset.shard_info_iterator(None):
                for fi in info_.file_infos:
                    fp = root / fi.file_path
                    if not fp.is_file():
                        bad.append(("shard-missing",
                                    f"reachable shard {fi.file_path} does "
                                    f"not exist"))
                        continue
                    real = tuple(
                        hashlib.new(a, fp.read_bytes()).hexdigest()
                        for a in algos)
                    if real != tuple(fi.hash_checksums):
                        bad.append(("shard-checksum",
                                    f"reachable shard {fi.file_path} does "
                                    f"not match its recorded checksums"))
        except Exception as e:  # pylint: disable=broad-except
            bad.append(("open-fails",
                        f"opening / walking the dataset after the crash: "
                        f"{type(e).__name__}: {str(e)[:160]}"))
            return {"bad": bad}
        if bad:
            return {"bad": bad}
        # (3) iteration: committed <= returned <= handed to the writer
        info = json.loads(tree["dataset_info.json"])
        for split in sorted(set(committed) | set(info.get("splits", {}))):
            com = collections.Counter(committed.get(split, []))
            alw = collections.Counter(allowed.get(split, []))
            if split not in info.get("splits", {}):
                if com:
                    bad.append(("lost",
                                f"split {split} with committed examples "
                                f"{sorted(com)} is not in the description"))
                continue
            try:
                got = collections.Counter(D.ids(dataset, split, "sync"))
            except Exception as e:  # pylint: disable=broad-except
                if com or "empty" not in str(e):
                    bad.append(("iteration-fails",
                                f"iterating {split} after the crash: "
                                f"{type(e).__name__}: {str(e)[:160]}"))
                continue
            if com - got:
                bad.append(("lost",
                            f"split {split}: committed examples "
                            f"{sorted((com - got).elements())} are gone"))
            if got - alw:
                bad.append(("phantom",
                            f"split {split}: returns "
                            f"{sorted((got - alw).elements())} which were "
                            f"never (fully) written"))
        return {"bad": bad}
    except Exception as e:  # pylint: disable=broad-except
        return {"bad": bad, "harness": f"{type(e).__name__}: {e} " +
                traceback.format_exc()[-400:]}
    finally:
        shutil.rmtree(root, ignore_errors=True)


# ---------------------------------------------------------------------------
# enumeration of crash states from the effect log
# ---------------------------------------------------------------------------
def cuts(n: int) -> list[int]:
    if n <= 1:
        return []
    if n <= 48:
        return list(range(1, n))
    return sorted({1, n // 3, n // 2, n - 1})


def mark_update(ctx_, name: str) -> None:
    if name == "create_end":
        ctx_["created"] = True
    elif name.startswith("w_"):
        _, s, w, q, split = name.split("_", 4)
        ctx_["allowed"].setdefault(split, []).append((int(s), int(w), int(q)))
        ctx_["pending"].setdefault(split, []).append((int(s), int(w), int(q)))
    elif name.startswith("end_"):
        for split, v in ctx_["pending"].items():
            ctx_["committed"].setdefault(split, []).extend(v)
        ctx_["pending"] = {}


def installed_versions(eff: list[dict], root: str) -> dict[str, set]:
    fs = crash.FS()
    inst: dict[str, set] = {}
    for e in eff:
        if e["op"] == "mark":
            continue
        fs.apply(e)
        tgt = None
        if e["op"] == "rename":
            tgt = e["dst"]
        elif e["op"] == "close":
            tgt = e["path"]
        if tgt and tgt.startswith(root) and tgt in fs.files:
            rel = tgt[len(root):].lstrip("/")
            if is_meta(rel):
                inst.setdefault(rel, set()).add(
                    hashlib.sha1(bytes(fs.files[tgt])).hexdigest())
    return inst


def log_invariants(eff: list[dict], root: str) -> list[tuple[str, str]]:
    """Monotonicity on the effect log itself (covers non-atomic readers)."""
    bad = []
    fs = crash.FS()
    done: set[str] = set()  # shard files closed once, metadata installed once
    last_meta: dict[str, dict] = {}
    for e in eff:
        op = e["op"]
        if op == "mark":
            continue
        p = e.get("path") or e.get("dst")
        rel = p[len(root):].lstrip("/") if p and p.startswith(root) else None
        if rel and rel in done and op in ("write", "truncate", "unlink"):
            if not (op == "truncate" and e["len"] == len(
                    fs.files.get(p, b""))):
                bad.append(("in-place",
                            f"{op} on the already committed file {rel}"))
        if op == "rename" and e["src"].startswith(root):
            srel = e["src"][len(root):].lstrip("/")
            if srel in done:
                bad.append(("in-place", f"committed file {srel} renamed away"))
        fs.apply(e)
        if op == "close" and rel and rel.endswith(SHARD_EXT):
            done.add(rel)
        if rel and is_meta(rel) and op in ("rename", "close") and p in fs.files:
            try:
                doc = json.loads(bytes(fs.files[p]))
            except ValueError:
                if op == "rename":
                    bad.append(("meta-invalid",
                                f"rename installed an unparsable {rel}"))
                continue
            done.add(rel)
            old = last_meta.get(rel)
            if old is not None:
                if rel.endswith("shards_list.json"):
                    o = {json.dumps(s, sort_keys=True)
                         for s in old.get("shard_files", [])}
                    n = {json.dumps(s, sort_keys=True)
                         for s in doc.get("shard_files", [])}
                    if not o <= n:
                        bad.append(("not-monotone",
                                    f"new version of {rel} drops or changes "
                                    f"{len(o - n)} committed shard entries"))
                    oc = {c["shard_list_info_file"]["file_path"]
                          for c in old.get("children_shard_lists", [])}
                    nc = {c["shard_list_info_file"]["file_path"]
                          for c in doc.get("children_shard_lists", [])}
                    if not oc <= nc:
                        bad.append(("not-monotone",
                                    f"new version of {rel} drops child lists "
                                    f"{sorted(oc - nc)}"))
                else:
                    if not set(old.get("splits", {})) <= set(
                            doc.get("splits", {})):
                        bad.append(("not-monotone",
                                    "new dataset_info.json drops a split"))
            last_meta[rel] = doc
    return bad


def enumerate_states(eff: list[dict], root: str, torn=True):
    """Yield (label, tree, ctx) for every crash state of a single-process
    history."""
    fs = crash.FS()
    ctx_ = {"created": False, "committed": {}, "allowed": {}, "pending": {}}
    yield ("k=0", fs.tree(root), _freeze(ctx_))
    for k, e in enumerate(eff):
        if e["op"] == "mark":
            mark_update(ctx_, e["name"])
            continue
        if e["op"] == "close":
            continue
        if e["op"] == "write" and torn and e["path"].startswith(root):
            for c in cuts(len(e["data"])):
                f2 = crash.FS()
                f2.files = {p: bytearray(d) for p, d in fs.files.items()}
                f2.dirs = set(fs.dirs)
                f2.apply(e, cut=c)
                yield (f"k={k} torn write of {len(e['data'])} bytes at {c} "
                       f"to {e['path'][len(root):]}", f2.tree(root),
                       _freeze(ctx_))
        fs.apply(e)
        yield (f"k={k + 1} after {e['op']} "
               f"{(e.get('path') or e.get('dst'))[len(root):]}",
               fs.tree(root), _freeze(ctx_))


def _freeze(ctx_):
    return {"created": ctx_["created"],
            "committed": {k: list(v) for k, v in ctx_["committed"].items()},
            "allowed": {k: list(v) for k, v in ctx_["allowed"].items()}}


def enumerate_cuts_mp(eff: list[dict], root: str, fine: bool):
    """Consistent cuts of a history whose last session runs in worker
    processes: parent prefix, product of worker prefixes, parent suffix."""
    pids = []
    for e in eff:
        if e["pid"] not in pids:
            pids.append(e["pid"])
    parent = pids[0]
    workers = [p for p in pids[1:]]
    first = min(i for i, e in enumerate(eff) if e["pid"] != parent)
    last = max(i for i, e in enumerate(eff) if e["pid"] != parent)
    pre = eff[:first]
    mid_parent = [e for e in eff[first:last + 1] if e["pid"] == parent]
    post = eff[last + 1:]
    # states of the parent-only parts
    yield from enumerate_states(pre, root, torn=False)
    base = crash.FS()
    ctx0 = {"created": False, "committed": {}, "allowed": {}, "pending": {}}
    for e in pre + mid_parent:
        if e["op"] == "mark":
            mark_update(ctx0, e["name"])
        else:
            base.apply(e)
    seqs = [[e for e in eff if e["pid"] == w] for w in workers]

    def points(seq):
        """Cut positions of one worker."""
        if fine:
            return list(range(len(seq) + 1))
        pts = [0]
        for i, e in enumerate(seq):
            if e["op"] in ("rename", "close", "mkdir"):
                pts.append(i + 1)
        if pts[-1] != len(seq):
            pts.append(len(seq))
        return pts

    n = 0
    for combo in itertools.product(*[points(s) for s in seqs]):
        fs = crash.FS()
        fs.files = {p: bytearray(d) for p, d in base.files.items()}
        fs.dirs = set(base.dirs)
        ctx_ = {"created": ctx0["created"],
                "committed": {k: list(v) for k, v in
                              ctx0["committed"].items()},
                "allowed": {k: list(v) for k, v in ctx0["allowed"].items()},
                "pending": {k: list(v) for k, v in ctx0["pending"].items()}}
        for s, c in zip(seqs, combo):
            for e in s[:c]:
                if e["op"] == "mark":
                    mark_update(ctx_, e["name"])
                else:
                    fs.apply(e)
        n += 1
        yield (f"workers at {combo}", fs.tree(root), _freeze(ctx_))
    # parent suffix (merge + description update), all workers complete
    fs = crash.FS()
    ctx_ = {"created": False, "committed": {}, "allowed": {}, "pending": {}}
    for e in eff[:last + 1]:
        if e["op"] == "mark":
            mark_update(ctx_, e["name"])
        else:
            fs.apply(e)
    for k, e in enumerate(post):
        if e["op"] == "mark":
            mark_update(ctx_, e["name"])
            continue
        if e["op"] == "close":
            continue
        fs.apply(e)
        yield (f"parent suffix k={k + 1} {e['op']}", fs.tree(root),
               _freeze(ctx_))


PLANS = {
    "quick": [("fb", "root2"), ("fb", "subs"), ("npz", "root2"),
              ("npz", "subs"), ("tfrec", "root2"), ("fb", "mp"),
              ("fb", "nest"), ("tfrec", "nest")],
    "thorough": [(f, h) for f in ("fb", "npz", "tfrec")
                 for h in ("root2", "subs", "nest", "mp")],
}


def record_plan(args):
    fmt, hist = args
    root = core.fresh_dir(f"rec-{fmt}-{hist}")
    log = core.scratch() / f"trace-{fmt}-{hist}.txt"
    try:
        eff = crash.record(fmt, hist, root, log)
        fs = crash.FS()
        for e in eff:
            if e["op"] != "mark":
                fs.apply(e)
        faithful = fs.tree(str(root)) == D.snapshot(root)
        return {"fmt": fmt, "hist": hist, "eff": eff, "root": str(root),
                "faithful": faithful}
    except Exception as e:  # pylint: disable=broad-except
        return {"fmt": fmt, "hist": hist, "harness":
                f"{type(e).__name__}: {e}"}
    finally:
        shutil.rmtree(root, ignore_errors=True)
        log.unlink(missing_ok=True)


def run(ctx: core.Ctx) -> None:
    plans = PLANS[ctx.tier]
    with core.pool(need_sedpack=False, workers=len(plans)) as ex:
        recs = list(ex.map(record_plan, plans))
    with core.pool() as ex:
        for rec in recs:
            name = f"{rec['fmt']}/{rec['hist']}"
            if rec.get("harness"):
                ctx.harness_error(f"{name}: {rec['harness']}")
                continue
            if not rec["faithful"]:
                ctx.harness_error(
                    f"{name}: replaying the complete effect log does not "
                    f"reproduce the directory the writer left")
                continue
            eff, root = rec["eff"], rec["root"]
            for sym, msg in log_invariants(eff, root):
                ctx.violation({"engine": "crash", "symptom": sym,
                               "fmt": rec["fmt"]},
                              f"{name}: effect log: {msg}",
                              {"fmt": rec["fmt"], "hist": rec["hist"],
                               "log_invariant": True})
            inst = {k: sorted(v)
                    for k, v in installed_versions(eff, root).items()}
            mp = len({e["pid"] for e in eff}) > 1
            gen = (enumerate_cuts_mp(eff, root, fine=ctx.tier == "thorough")
                   if mp else enumerate_states(eff, root))
            seen = set()
            tasks, labels = [], []
            n_all = 0
            for label, tree, c in gen:
                n_all += 1
                key = hashlib.sha1(
                    repr((sorted((k, hashlib.sha1(v).hexdigest())
                                 for k, v in tree.items()),
                          sorted(c["committed"].items()),
                          sorted(c["allowed"].items()),
                          c["created"])).encode()).hexdigest()
                if key in seen:
                    continue
                seen.add(key)
                c["installed"] = inst
                tasks.append((tree, rec["fmt"], c))
                labels.append(label)
            nbad = 0
            for label, r in zip(labels,
                                ex.map(judge_state, tasks, chunksize=8)):
                if r.get("harness"):
                    ctx.harness_error(f"{name} {label}: {r['harness']}")
                for sym, msg in r["bad"]:
                    nbad += 1
                    ctx.violation(
                        {"engine": "crash", "symptom": sym,
                         "fmt": rec["fmt"]},
                        f"{name}: crash state [{label}]: {msg}",
                        {"fmt": rec["fmt"], "hist": rec["hist"],
                         "label": label})
            muts = sum(1 for e in eff if e["op"] not in ("mark", "close"))
            ctx.part(name, effects=muts, crash_states=n_all,
                     distinct_states=len(tasks), processes=len(
                         {e["pid"] for e in eff}), violations=nbad)
            ctx.add(evaluations=n_all, distinct_nontrivial=len(tasks))
            ctx.sample({"history": name, "state": labels[len(labels) // 2]},
                       limit=8)
    ctx.cov["rule"] = (
        "a case = the directory after a prefix of the recorded file-system "
        "effects of a real writer history (every prefix; every write also "
        "cut at 1, n/3, n/2, n-1 bytes, every cut for payloads <= 48 "
        "bytes); for worker processes all consistent cuts; distinct = "
        "distinct (directory content, reference-model) pairs; all are "
        "non-trivial (the oracle opens, checks and iterates each)")
    ctx.cov["exhaustive"] = True
    ctx.assumptions[:] = [
        "crash model of the property: process death, OS stays up; completed "
        "syscalls persist in order (no fsync reordering)",
        "one recorded run per history: the effect order inside one process "
        "is deterministic; worker processes are combined in all consistent "
        "cuts (coarse cut points in the quick tier)",
        "strace sees every write (payload size checked against the return "
        "value); replay of the full log reproduces the real directory "
        "byte for byte (checked on every run)",
    ]


def replay(case: dict) -> list[str]:
    rec = record_plan((case["fmt"], case["hist"]))
    if rec.get("harness"):
        return [f"HARNESS {rec['harness']}"]
    eff, root = rec["eff"], rec["root"]
    if case.get("log_invariant"):
        return [m for _, m in log_invariants(eff, root)]
    core.import_sedpack_quietly()
    inst = {k: sorted(v) for k, v in installed_versions(eff, root).items()}
    mp = len({e["pid"] for e in eff}) > 1
    gen = (enumerate_cuts_mp(eff, root, fine=True)
           if mp else enumerate_states(eff, root))
    out = []
    for label, tree, c in gen:
        if label.split(" torn")[0].split(" after")[0] == case["label"].split(
                " torn")[0].split(" after")[0]:
            c["installed"] = inst
            out += [m for _, m in judge_state((tree, case["fmt"], c))["bad"]]
    return out
