"""C15: the Rust reader equals the Python reader for every thread count and
timing (E5 gate harness on parallel_map.rs + end-to-end grid)."""
from __future__ import annotations

import collections
import concurrent.futures as cf
import shutil
import traceback

import numpy as np

from vf import core, pmap_mc, ds as D

TAGS = {"C15"}


def pmap_configs(tier: str) -> list[dict]:
    c = []
    if tier == "thorough":
        for T in range(1, 7):
            for n in range(0, 9):
                big = (n + 1)**min(T, n + 1) > 40000
                c.append(dict(n=n, T=T, bound=3) if big else dict(n=n, T=T))
        for T in range(1, 6):
            for n in range(1, 8):
                for d in range(0, n + 1):
                    big = (n + 1)**min(T, n + 1) > 5000
                    c.append(dict(n=n, T=T, d=d, **({"bound": 2} if big
                                                    else {})))
        return c
    for T in range(1, 5):
        for n in range(0, 6):
            c.append(dict(n=n, T=T))
    c += [dict(n=6, T=3), dict(n=7, T=2), dict(n=7, T=4, bound=2),
          dict(n=6, T=5, bound=2), dict(n=3, T=5)]
    for T in (1, 2, 3):
        for n in range(1, 5):
            for d in range(0, n + 1):
                c.append(dict(n=n, T=T, d=d))
    c += [dict(n=6, T=4, d=2, bound=2), dict(n=5, T=3, d=5, bound=2)]
    return c


def hold_configs(tier: str) -> list[dict]:
    """Base schedule "slow partners": every release of an item is held back
    for 150 ms, so any wait with a shorter time-out inside parallel_map
    expires before the item arrives (time-outs are environment answers)."""
    if tier == "thorough":
        return [dict(n=8, T=3, hold=150, bound=2),
                dict(n=6, T=2, hold=150, bound=2),
                dict(n=9, T=4, hold=150, bound=1),
                dict(n=7, T=3, d=3, hold=150, bound=1),
                dict(n=5, T=5, hold=150, bound=1)]
    return [dict(n=8, T=3, hold=150, bound=1),
            dict(n=6, T=2, hold=150, bound=1),
            dict(n=7, T=4, hold=150, bound=0),
            dict(n=6, T=3, d=3, hold=150, bound=0)]


def weight(cfg):
    return (cfg["n"] + 1)**min(cfg["T"], cfg["n"] + 1) * (
        1000 if cfg.get("hold") else 1)


# ---------------------------------------------------------------------------
# end to end with the extension rebuilt from the working tree
# ---------------------------------------------------------------------------
def e2e_case(args) -> dict:
    compression, eps, nshards, layout = args
    root = core.fresh_dir("c15")
    out = {"args": list(args), "bad": [], "cases": 0, "harness": None}
    try:
        from sedpack.io import Dataset, Metadata
        from sedpack.io.metadata import Attribute, DatasetStructure
        import sedpack._sedpack_rs as rs
        import os
        if not str(rs.__file__).startswith(str(core.VERIF)):
            out["harness"] = f"stale extension loaded: {rs.__file__}"
            return out
        attrs = {
            "a": [Attribute(name="id", dtype="int64", shape=(3,)),
                  Attribute(name="v", dtype="float32", shape=(2,))],
            "b": [Attribute(name="u8", dtype="uint8", shape=(5,)),
                  Attribute(name="id", dtype="int64", shape=(3,)),
                  Attribute(name="f16", dtype="float16", shape=(2, 3)),
                  Attribute(name="v", dtype="float32", shape=(2,)),
                  Attribute(name="s", dtype="int16", shape=())],
        }[layout]
        struct = DatasetStructure(saved_data_description=attrs,
                                  compression=compression,
                                  examples_per_shard=eps,
                                  shard_file_type="fb",
                                  hash_checksum_algorithms=("md5",))
        ds_ = Dataset.create(path=root, metadata=Metadata(),
                             dataset_structure=struct)
        N = eps * (nshards - 1) + 1  # short last shard
        rng = np.random.default_rng(nshards * 100 + eps)
        with ds_.filler() as f:
            for q in range(N):
                ex = D.example((0, 0, q))
                if layout == "b":
                    ex["u8"] = rng.integers(0, 255, 5).astype(np.uint8)
                    ex["f16"] = rng.standard_normal((2, 3)).astype(np.float16)
                    ex["s"] = np.int16(q - 3)
                f.write_example(values=ex, split="train")
            f.write_example(values=dict(D.example((0, 1, 0)), **(
                {"u8": np.zeros(5, np.uint8),
                 "f16": np.zeros((2, 3), np.float16),
                 "s": np.int16(0)} if layout == "b" else {})), split="test")
        ds_ = Dataset(root)

        def key(e):
            return tuple((k, np.asarray(e[k]).tobytes(),
                          str(np.asarray(e[k]).dtype),
                          np.asarray(e[k]).shape) for k in sorted(e))

        py = [key(e) for e in D.iterate(ds_, "train", "sync")]
        Ts = sorted({1, 2, max(1, nshards - 1), nshards, nshards + 1,
                     2 * nshards})
        for T in Ts:
            for sh in (0, 3):
                out["cases"] += 1
                try:
                    got = D.with_alarm(
                        60, lambda: [key(e) for e in D.iterate(
                            ds_, "train", "rust", file_parallelism=T,
                            shuffle=sh)])
                except Exception as e:  # pylint: disable=broad-except
                    out["bad"].append(
                        ("raises", f"rust reader {args} threads={T} "
                         f"shuffle={sh}: {type(e).__name__}: {str(e)[:120]}"))
                    continue
                if sh == 0 and got != py:
                    out["bad"].append(
                        ("sequence", f"rust reader {args} threads={T}: "
                         f"unshuffled sequence differs from the Python "
                         f"reader ({len(got)} vs {len(py)} examples)"))
                if sh and collections.Counter(got) != collections.Counter(py):
                    out["bad"].append(
                        ("multiset", f"rust reader {args} threads={T} "
                         f"shuffle={sh}: multiset differs from the Python "
                         f"reader"))
        # early abandonment at every position, then a fresh full pass
        T = 2
        base = len(os.listdir("/proc/self/task"))
        for cut in range(0, N + 1):
            out["cases"] += 1

            def go():
                g = ds_.as_numpy_iterator_rust(split="train", repeat=False,
                                               shuffle=0, file_parallelism=T)
                part = []
                for e in g:
                    if len(part) >= cut:
                        break
                    part.append(key(e))
                g.close()
                full = [key(e) for e in D.iterate(ds_, "train", "rust",
                                                  file_parallelism=T)]
                return part, full

            try:
                part, full = D.with_alarm(60, go)
            except Exception as e:  # pylint: disable=broad-except
                out["bad"].append(
                    ("abandon", f"rust reader {args}: abandoning after "
                     f"{cut} examples: {type(e).__name__}: {str(e)[:120]}"))
                continue
            if part != py[:cut] or full != py:
                out["bad"].append(
                    ("abandon", f"rust reader {args}: after abandoning a "
                     f"stream at {cut} the fresh pass yields {len(full)} "
                     f"examples (expected {len(py)})"))
        # a shard the Python reader cannot read: the Rust reader must not turn
        # that into a normal, shorter stream (same outcome kind), for every
        # thread count and position of the unreadable shard
        infos = list(ds_.shard_info_iterator("train"))
        for pos in sorted({0, len(infos) // 2, len(infos) - 1}):
            victim = ds_.path / infos[pos].file_infos[0].file_path
            hidden = victim.with_suffix(".hidden")
            os.rename(victim, hidden)
            try:
                try:
                    D.with_alarm(60, lambda: list(D.iterate(ds_, "train",
                                                            "sync")))
                    py_raises = False
                except D.Watchdog:
                    raise
                except Exception:  # pylint: disable=broad-except
                    py_raises = True
                for T in Ts:
                    out["cases"] += 1
                    try:
                        got = D.with_alarm(
                            60, lambda: [key(e) for e in D.iterate(
                                ds_, "train", "rust", file_parallelism=T)])
                        rs_raises = False
                    except D.Watchdog:
                        raise
                    except Exception:  # pylint: disable=broad-except
                        rs_raises = True
                    if py_raises and not rs_raises:
                        out["bad"].append(
                            ("unreadable-shard",
                             f"rust reader {args} threads={T}: shard "
                             f"{pos} of {len(infos)} is missing; the Python "
                             f"reader raises, the Rust reader ends normally "
                             f"after {len(got)} of {len(py)} examples"))
            finally:
                os.rename(hidden, victim)
        import time
        for _ in range(100):
            now = len(os.listdir("/proc/self/task"))
            if now <= base:
                break
            time.sleep(0.01)
        if now > base:
            out["bad"].append(
                ("thread-leak", f"rust reader {args}: {now - base} reader "
                 f"threads still alive after all generators were closed"))
    except Exception as e:  # pylint: disable=broad-except
        out["harness"] = f"{type(e).__name__}: {e} " + traceback.format_exc(
        )[-400:]
    finally:
        shutil.rmtree(root, ignore_errors=True)
    return out


def run(ctx):
    from vf import rustbuild
    rustbuild.ensure_ext()
    rustbuild.ensure_pmap()
    cfgs = sorted(pmap_configs(ctx.tier) + hold_configs(ctx.tier),
                  key=weight, reverse=True)
    # the gate harness judges quiescence from /proc: keep the machine calm
    with cf.ThreadPoolExecutor(max_workers=6) as tp:
        results = list(tp.map(pmap_mc.explore_config, cfgs))
    retry = [r["cfg"] for r in results
             if any("never quiescent" in h or "DIVERGENCE" in h or
                    "diverged" in h for h in r["harness"])]
    if retry:  # once more, alone
        redo = {json_key(c): pmap_mc.explore_config(c) for c in retry}
        results = [redo.get(json_key(r["cfg"]), r) for r in results]
    nexec = 0
    for r in results:
        cfg = r["cfg"]
        nexec += r["executions"]
        for h in r["harness"]:
            ctx.harness_error(h)
        if r["capped"]:
            ctx.harness_error(f"cap hit in {cfg}")
        name = f"parallel_map n={cfg['n']} T={cfg['T']}" + (
            f" drop={cfg['d']}" if "d" in cfg else "") + (
                f" hold={cfg['hold']}ms" if cfg.get("hold") else "")
        ctx.part(name, executions=r["executions"],
                 transitions=r["transitions"],
                 complete=cfg.get("bound") is None,
                 distinct_outputs=r["distinct_outputs"],
                 max_ahead=r["max_ahead"], wall_s=r["wall_s"])
        ctx.add(states=r["executions"], transitions=r["transitions"],
                traces_validated_against_impl=r["executions"])
        if r["samples"] and cfg["n"] == 4 and cfg["T"] == 3:
            ctx.sample({"config": cfg, **r["samples"][0]})
        for v in r["violations"]:
            if v["prop"] in TAGS:
                ctx.violation({"engine": "gates", "symptom": v["sym"]},
                              v["msg"], {"kind": "pmap", "cfg": cfg,
                                         "choices": v["choices"]})
    # end to end
    tasks = []
    comps = ("", "LZ4", "GZIP", "ZLIB")
    for i, comp in enumerate(comps):
        for nsh in ((1, 2, 3, 4, 6) if ctx.tier == "thorough" else
                    (1, 2, 3, 5)):
            for eps in ((1, 3) if ctx.tier == "thorough" else
                        ((1,) if (nsh + i) % 2 else (3,))):
                tasks.append((comp, eps, nsh, "ab"[(nsh + i) % 2]))
    tot = 0
    # a deadlock inside the extension holds the GIL: no in-process watchdog
    # can fire, so the worker pool itself is watched
    for t, r in core.run_with_watchdog(e2e_case, tasks, 120,
                                         stop_after_hang=True):
        if r.get("hung"):
            ctx.violation({"engine": "e2e", "symptom": "hang"},
                          f"rust reader {list(t)}: the worker process did not "
                          f"come back within 120 s (dead-locked inside the "
                          f"extension while iterating / abandoning / "
                          f"closing)", {"kind": "e2e", "args": list(t)})
            continue
        if r["harness"]:
            ctx.harness_error(f"{r['args']}: {r['harness']}")
            continue
        tot += r["cases"]
        for sym, msg in r["bad"]:
            ctx.violation({"engine": "e2e", "symptom": sym}, msg,
                          {"kind": "e2e", "args": r["args"]})
    ctx.part("end to end (extension rebuilt from /repo/rust): compression x "
             "shards x eps x layout x threads x shuffle, abandonment at "
             "every position", datasets=len(tasks), passes=tot)
    ctx.add(states=tot, transitions=tot, traces_validated_against_impl=tot)
    ctx.cov["exhaustive"] = True
    ctx.cov["explanation"] = (
        "every order in which the worker threads of the real "
        "parallel_map.rs can finish their items (gate harness: a "
        "controller releases one blocked item at a time whenever the "
        "process is quiescent), for all n<=5..7, T<=4..5, and every early "
        "drop position; oracle: outputs in input order, bounded pulls, "
        "drop returns and all threads are gone, no deadlock; a few "
        "configurations again with every release held back 150 ms (waits "
        "with a time-out expire first).  End to end: "
        "the rebuilt extension against the pure-Python reader for every "
        "supported compression, thread counts below/at/above the number "
        "of shards, two attribute layouts, shuffle 0 (same sequence) and "
        ">0 (same multiset), abandonment at every position, and a shard "
        "the Python reader cannot read at the first/middle/last position "
        "(the Rust reader must fail too, not end normally)")
    ctx.assumptions[:] = [
        "completion order of whole items is what the channel protocol can "
        "observe; instruction-level interleavings of safe Rust over mpsc "
        "are not enumerated",
        "quiescence is judged from /proc/self/task/*/stat (all threads "
        "sleeping for 6 samples, event counter stable); a misjudgement "
        "shows up as a divergence (harness error), never as a violation",
    ]


def json_key(c):
    import json
    return json.dumps(c, sort_keys=True)


def replay(case):
    if case["kind"] == "pmap":
        return pmap_mc.replay_case(case["cfg"], case["choices"])
    from vf import rustbuild
    rustbuild.ensure_ext()
    core.import_sedpack_quietly()
    r = e2e_case(tuple(case["args"]))
    return [m for _, m in r["bad"]]
