"""C05: check() accepts every committed dataset and detects every
modification (E1 acceptance + E6 single-fault enumeration)."""
from __future__ import annotations

import itertools
import shutil
import traceback
from pathlib import Path

from vf import core, dsfamily, ds as D, opseq

TAGS = {"C05"}
ALGOS = ("md5", "sha1", "sha224", "sha256", "sha384", "sha512", "sha3_224",
         "sha3_256", "sha3_384", "sha3_512", "xxh32", "xxh64", "xxh128")
META = ("dataset_info.json", "shards_list.json")


def reachable(root: Path) -> list[str]:
    info = D.load_json(root / "dataset_info.json")
    out = ["dataset_info.json"]
    for split, rec in info.get("splits", {}).items():
        for rel, doc, _ in D.walk_lists(root, rec):
            out.append(str(rel))
            for sh in doc.get("shard_files", []):
                out.append(sh["file_infos"][0]["file_path"])
    return out


def detects(root: Path, before, root_sums) -> tuple[bool, bool, str]:
    """(detected by a fresh handle, detected by the handle opened before the
    fault, how)."""
    from sedpack.io import Dataset
    fresh_ok = True
    how = ""
    try:
        h = Dataset(root)
        h.check(show_progressbar=False, hash_checksums_values=root_sums)
        fresh_ok = False
    except Exception as e:  # pylint: disable=broad-except
        how = type(e).__name__
    old_ok = True
    try:
        before.check(show_progressbar=False, hash_checksums_values=root_sums)
        old_ok = False
    except Exception:  # pylint: disable=broad-except
        pass
    return fresh_ok, old_ok, how


WS = (0x0a, 0x0d, 0x20, 0x09)


def substitutes(b: int, tier: str) -> list[int]:
    out = []
    if b in WS:
        out += [v for v in WS if v != b]
    out += [0x00, b ^ 0xff]
    if tier == "thorough":
        out += [(b + 1) & 0xff, (b - 1) & 0xff, 0x0a, 0x0d, 0x20]
    seen = []
    for v in out:
        if v != b and v not in seen:
            seen.append(v)
    return seen


def reencodings(rel: str, data: bytes) -> list[tuple[str, bytes]]:
    """Whole-file rewrites that keep the meaning of the file (what a text
    tool, a transfer in text mode or a JSON formatter would do)."""
    import json
    out = [("every LF turned into CR LF", data.replace(b"\n", b"\r\n")),
           ("every LF turned into CR", data.replace(b"\n", b"\r")),
           ("trailing newline added", data + b"\n"),
           ("trailing whitespace stripped", data.rstrip()),
           ("UTF-8 byte order mark prepended", b"\xef\xbb\xbf" + data)]
    i = data.find(b"\n")
    if i >= 0:
        out.append(("first LF turned into CR LF",
                    data[:i] + b"\r\n" + data[i + 1:]))
        out.append(("first LF turned into CR",
                    data[:i] + b"\r" + data[i + 1:]))
        j = data.rfind(b"\n")
        out.append(("last LF turned into CR",
                    data[:j] + b"\r" + data[j + 1:]))
    if rel.endswith(".json"):
        try:
            doc = json.loads(data)
        except ValueError:
            return out
        if rel == "dataset_info.json":
            # edits that keep the file a valid description (what the
            # supplied root checksums are there to catch)
            import copy
            ds_ = doc.get("dataset_structure", {})
            algos = list(ds_.get("hash_checksum_algorithms", []))
            edits = [("no checksum algorithms", "hash_checksum_algorithms",
                      []),
                     ("first checksum algorithm only",
                      "hash_checksum_algorithms", algos[:1]),
                     ("checksum algorithms reversed",
                      "hash_checksum_algorithms", algos[::-1]),
                     ("an extra checksum algorithm",
                      "hash_checksum_algorithms", algos + ["md5"]),
                     ("examples_per_shard + 1", "examples_per_shard",
                      int(ds_.get("examples_per_shard", 1)) + 1)]
            for what, key, val in edits:
                d2 = copy.deepcopy(doc)
                d2["dataset_structure"][key] = val
                out.append((f"description edited: {what}",
                            json.dumps(d2, indent=2).encode("utf-8")))
            d3 = copy.deepcopy(doc)
            d3.setdefault("metadata", {})["description"] = "edited"
            out.append(("description edited: metadata text",
                        json.dumps(d3, indent=2).encode("utf-8")))
        for what, kw in (("compact", dict(separators=(",", ":"))),
                         ("indent=2", dict(indent=2)),
                         ("indent=4", dict(indent=4)),
                         ("indent=1 sorted keys", dict(indent=1,
                                                       sort_keys=True)),
                         ("default dumps", {}),
                         ("non-ASCII kept", dict(ensure_ascii=False,
                                                 indent=2))):
            out.append((f"re-serialised JSON ({what})",
                        json.dumps(doc, **kw).encode("utf-8")))
    return out


def fault_case(args) -> dict:
    name, hashes, tier, part, nparts = args
    root = core.fresh_dir("c05")
    out = {"name": name, "hashes": list(hashes), "bad": [], "faults": 0,
           "kinds": {}, "harness": None, "files": 0, "bytes": 0}
    try:
        from sedpack.io import Dataset
        # build with snapshots after every session (older versions)
        versions: dict[str, list[bytes]] = {}
        snaps = []
        _build_incremental(root, name, hashes, snaps)
        for snap in snaps[:-1]:
            for rel, data in snap.items():
                versions.setdefault(rel, [])
                if data not in versions[rel]:
                    versions[rel].append(data)
        pristine = D.snapshot(root)
        before = Dataset(root)
        root_sums = before.current_metadata_checksums()
        files = reachable(root)
        out["files"] = len(files)
        out["bytes"] = sum(len(pristine[f]) for f in files)
        # sanity: the pristine dataset is accepted
        ok_f, ok_o, _ = detects(root, before, root_sums)
        if ok_f or ok_o:
            out["bad"].append(({"symptom": "pristine-rejected"},
                               f"{name} {hashes}: check() rejects the "
                               f"unmodified dataset", {}))
            return out

        def trial(kind, rel, new_bytes, desc):
            if new_bytes is not None and new_bytes == pristine[rel]:
                return
            out["faults"] += 1
            out["kinds"][kind] = out["kinds"].get(kind, 0) + 1
            p = root / rel
            if new_bytes is None:
                p.unlink()
            else:
                p.write_bytes(new_bytes)
            try:
                f_det, o_det, how = detects(root, before, root_sums)
            finally:
                p.write_bytes(pristine[rel])
            for det, which in ((f_det, "opened after the fault"),
                               (o_det, "opened before the fault")):
                if not det:
                    out["bad"].append(
                        ({"symptom": "undetected", "fault": kind,
                          "file": "description" if rel == "dataset_info.json"
                          else ("list" if rel.endswith(".json") else "shard"),
                          "handle": which.split()[1]},
                         f"{name} hashes={list(hashes)}: {desc} of {rel} is "
                         f"not detected by check() on a handle {which}",
                         {"rel": rel, "kind": kind, "desc": desc}))

        n = 0
        for rel in files:
            data = pristine[rel]
            L = len(data)
            bits = range(8) if tier == "thorough" else None
            for off in range(L):
                n += 1
                if n % nparts != part:
                    continue
                for bit in (bits if bits is not None else [off % 8]):
                    b = bytearray(data)
                    b[off] ^= 1 << bit
                    trial("bitflip", rel, bytes(b),
                          f"flip of bit {bit} at offset {off}")
                trial("truncate", rel, data[:off],
                      f"truncation to {off} bytes")
                # substitutions by a byte a tolerant reader could take for
                # the same thing, insertions and single-byte deletions
                for v in substitutes(data[off], tier):
                    b = bytearray(data)
                    b[off] = v
                    trial("substitute", rel, bytes(b),
                          f"byte {data[off]:#04x} at offset {off} replaced "
                          f"by {v:#04x}")
                for v in ((0x0d, 0x20, 0x00) if tier == "thorough" else
                          (0x0d,)):
                    trial("insert", rel, data[:off] + bytes([v]) + data[off:],
                          f"byte {v:#04x} inserted at offset {off}")
                trial("drop-byte", rel, data[:off] + data[off + 1:],
                      f"byte at offset {off} removed")
            if part == 0:
                for extra in (b"\x00", b"\n", b"\xff"):
                    trial("extend", rel, data + extra,
                          f"extension by byte {extra!r}")
                trial("delete", rel, None, "deletion")
                for what, enc in reencodings(rel, data):
                    trial("re-encode", rel, enc, what)
                for other in files:
                    if other != rel and Path(other).suffix == Path(
                            rel).suffix and (Path(other).name == Path(
                                rel).name or not rel.endswith(".json")):
                        trial("sibling", rel, pristine[other],
                              f"replacement by the content of {other}")
                for i, old in enumerate(versions.get(rel, [])):
                    trial("rollback", rel, old,
                          f"rollback to older version #{i}")
        # two files of the same kind exchange their contents (the split
        # still holds the same collection of bytes, under other names)
        if part == 0:
            same = [f for f in files if f != "dataset_info.json"]
            for i, a in enumerate(same):
                for b in same[i + 1:]:
                    if Path(a).suffix != Path(b).suffix or (
                            a.endswith(".json") != b.endswith(".json")
                    ) or pristine[a] == pristine[b]:
                        continue
                    out["faults"] += 1
                    out["kinds"]["swap"] = out["kinds"].get("swap", 0) + 1
                    (root / a).write_bytes(pristine[b])
                    (root / b).write_bytes(pristine[a])
                    try:
                        f_det, o_det, how = detects(root, before, root_sums)
                    finally:
                        (root / a).write_bytes(pristine[a])
                        (root / b).write_bytes(pristine[b])
                    for det, which in ((f_det, "opened after the fault"),
                                       (o_det, "opened before the fault")):
                        if not det:
                            out["bad"].append(
                                ({"symptom": "undetected", "fault": "swap",
                                  "file": "list" if a.endswith(".json")
                                  else "shard", "handle": which.split()[1]},
                                 f"{name} hashes={list(hashes)}: exchanging "
                                 f"the contents of {a} and {b} is not "
                                 f"detected by check() on a handle {which}",
                                 {"rel": a, "kind": "swap", "other": b}))
        # roll back subsets of metadata files together
        if part == 0 and len(snaps) >= 2:
            prev = snaps[-2]
            metas = [f for f in files if f.endswith(".json") and f in prev and
                     prev[f] != pristine[f]]
            for r in range(2, min(len(metas), 8) + 1):
                for combo in itertools.combinations(metas, r):
                    out["faults"] += 1
                    out["kinds"]["rollback-set"] = out["kinds"].get(
                        "rollback-set", 0) + 1
                    for rel in combo:
                        (root / rel).write_bytes(prev[rel])
                    try:
                        f_det, o_det, how = detects(root, before, root_sums)
                    finally:
                        for rel in combo:
                            (root / rel).write_bytes(pristine[rel])
                    if not (f_det and o_det):
                        out["bad"].append(
                            ({"symptom": "undetected",
                              "fault": "rollback-set"},
                             f"{name} hashes={list(hashes)}: rolling back "
                             f"{list(combo)} together to the previous "
                             f"session's versions is not detected",
                             {"combo": list(combo)}))
    except Exception as e:  # pylint: disable=broad-except
        out["harness"] = f"{type(e).__name__}: {e} " + traceback.format_exc(
        )[-500:]
    finally:
        shutil.rmtree(root, ignore_errors=True)
    return out


def _build_incremental(root: Path, name: str, hashes, snaps: list) -> None:
    """Like dsfamily.build, but snapshots the directory after every
    session."""
    from sedpack.io.dataset_filler import DatasetFiller
    from vf.opseq import feed
    fmt, eps, sessions = dsfamily.RECIPES[name]
    dataset = D.create(root, fmt=fmt, eps=eps, hashes=hashes)
    snaps.append(D.snapshot(root))
    for s, (kind, parts) in enumerate(sessions):
        if kind == "multi":
            writers = [[(split, (s, w, q)) for q in range(n)]
                       for w, (split, n) in enumerate(parts)]
            dataset.write_multiprocessing(
                feed_writer=feed, custom_arguments=[(w,) for w in writers],
                single_process=True)
        else:
            filler = dataset.filler() if kind == "root" else DatasetFiller(
                dataset, relative_path_from_split=Path(kind))
            q = 0
            with filler as f:
                for split, n in parts:
                    for _ in range(n):
                        f.write_example(values=D.example((s, 0, q)),
                                        split=split)
                        q += 1
        snaps.append(D.snapshot(root))


def plans(tier):
    nparts = 4
    if tier == "thorough":
        sets = [(a,) for a in ALGOS] + [ALGOS, ("xxh32", "md5"),
                                        ("sha256", "sha256")]
        names = ["flat", "nested", "multi", "cont", "npznest", "tfrec"]
        out = []
        for i, hs in enumerate(sets):
            for nm in (names if len(hs) != 1 else [names[i % len(names)],
                                                   "nested"]):
                out += [(nm, hs, tier, p, nparts) for p in range(nparts)]
        return out
    out = []
    for nm, hs in (("nested", ("sha256",)), ("cont", ("xxh32", "md5")),
                   ("multi", ("xxh64",)), ("npznest", ("sha1",)),
                   ("flat", ALGOS)):
        out += [(nm, hs, tier, p, nparts) for p in range(nparts)]
    return out


def run(ctx):
    tasks = plans(ctx.tier)
    with core.pool() as ex:
        agg: dict = {}
        for r in ex.map(fault_case, tasks):
            if r["harness"]:
                ctx.harness_error(f"{r['name']}: {r['harness']}")
                continue
            key = f"faults on {r['name']} hashes={'+'.join(r['hashes'])}"
            a = agg.setdefault(key, {"faults": 0, "kinds": {},
                                     "files": r["files"],
                                     "bytes": r["bytes"]})
            a["faults"] += r["faults"]
            for k, v in r["kinds"].items():
                a["kinds"][k] = a["kinds"].get(k, 0) + v
            for sig, msg, case in r["bad"]:
                ctx.violation(dict(sig, engine="faults"), msg,
                              {"kind": "fault", "name": r["name"],
                               "hashes": r["hashes"], **case})
        for k, a in agg.items():
            ctx.part(k, **a)
            ctx.add(evaluations=2 * a["faults"],
                    distinct_nontrivial=a["faults"])
    ctx.sample({"dataset": "nested (root + x + x/y lists)", "fault":
                "flip of bit 3 at offset 11 of train/x/shards_list.json",
                "oracle": "Dataset(path).check(hash_checksums_values=root) "
                          "raises, on a handle opened before and after"})
    # acceptance in every state of the history search
    A = opseq.alphabet
    if ctx.tier == "thorough":
        pl = [dict(fmt="fb", eps=2, letters=A(opseq.KINDS_T), depth=3),
              dict(fmt="npz", eps=2, letters=A(opseq.KINDS_Q), depth=2),
              dict(fmt="tfrec", eps=2, letters=A(opseq.KINDS_Q, ("mix",)),
                   depth=2)]
    else:
        pl = [dict(fmt="fb", eps=2, letters=A(opseq.KINDS_Q,
                                              ("mix", "test", "train")),
                   depth=2),
              dict(fmt="fb", eps=1, letters=A(("root", "x", "x/y", "multi3"),
                                              ("mix",)), depth=3),
              dict(fmt="fb", eps=2, letters=A(("x", "rej", "root"),
                                              ("train", "mix")), depth=2)]
    sub = core.Ctx("C04", ctx.tier, ctx.seed)  # model-checking style counters
    sub.findings = ctx.findings
    opseq.run_bfs_check(sub, TAGS, pl)
    for v in sub.violations:
        ctx.violations.append(v)
    ctx.known_hits.update(sub.known_hits)
    for h in sub.harness_errors:
        ctx.harness_error(h)
    for k, v in sub.parts.items():
        ctx.part("acceptance: " + k, **v)
    ctx.add(evaluations=sub.cov.get("transitions", 0),
            distinct_nontrivial=sub.cov.get("states", 0))
    ctx.cov["rule"] = (
        "a case = one single fault applied to one file reachable from the "
        "description of a committed dataset (every byte offset: bit flip, "
        "truncation to that length, substitution by look-alike bytes "
        "(LF/CR/space/tab among themselves, 0x00, complement), insertion "
        "of CR, removal of the byte; whole-file re-encodings: LF->CRLF, "
        "LF->CR, BOM, trailing newline, re-serialised JSON in 6 styles; "
        "extension by 0x00/0x0a/0xff; "
        "deletion; replacement by every sibling of the same kind; exchange "
        "of the contents of every pair of files of the same kind; rollback "
        "to every older version of the same path; subsets of metadata "
        "files rolled back together), evaluated on a handle opened before "
        "and one opened after the fault; faults that do not change the "
        "bytes are skipped, so every case is distinct and non-trivial; "
        "plus acceptance of every state of the session-history search")
    ctx.cov["exhaustive"] = True
    ctx.assumptions[:] = [
        "an error while opening the dataset counts as detection",
        "expected root checksums are always supplied to check()",
        "quick tier flips one bit per byte (bit = offset mod 8)",
    ]


def replay(case):
    if case.get("kind") == "history":
        return opseq.replay_history(case, TAGS)
    core.import_sedpack_quietly()
    bad = []
    for p in range(4):
        r = fault_case((case["name"], tuple(case["hashes"]), "quick", p, 4))
        bad += [m for s, m, c in r["bad"]
                if c.get("rel") == case.get("rel") and
                c.get("kind") == case.get("kind")]
    return bad
