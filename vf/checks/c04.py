"""C04: shard-list metadata accounts exactly for what is stored (E1)."""
from vf import opseq

TAGS = {"C04"}


def plans(tier):
    A = opseq.alphabet
    if tier == "thorough":
        return [
            dict(fmt="fb", eps=2, letters=A(opseq.KINDS_T), depth=3),
            dict(fmt="fb", eps=2, letters=A(("root", "x", "multi"),
                                            ("train", "mix")), depth=5),
            dict(fmt="fb", eps=1, letters=A(opseq.KINDS_Q), depth=2),
            dict(fmt="fb", eps=3, letters=A(opseq.KINDS_Q), depth=2),
            dict(fmt="npz", eps=2, letters=A(opseq.KINDS_T), depth=2),
            dict(fmt="tfrec", eps=2, letters=A(opseq.KINDS_Q), depth=2),
            dict(fmt="fb/nohash+reads", eps=2, letters=A(opseq.KINDS_Q),
                 depth=3),
            dict(fmt="npz/2hash+reads", eps=2, letters=A(opseq.KINDS_Q),
                 depth=2),
            dict(fmt="tfrec/nohash+reads", eps=1, letters=A(opseq.KINDS_Q),
                 depth=2),
        ]
    return [
        dict(fmt="fb", eps=2, letters=A(opseq.KINDS_Q), depth=3),
        dict(fmt="fb", eps=3, letters=A(opseq.KINDS_T, ("mix", "test")),
             depth=2),
        dict(fmt="npz", eps=2, letters=A(opseq.KINDS_Q, ("mix", "train")),
             depth=2),
        dict(fmt="tfrec", eps=2, letters=A(("root", "x", "multi"), ("mix",)),
             depth=2),
        # rejected writes caught by the caller
        dict(fmt="fb", eps=2, letters=A(("root", "x", "rej"),
                                        ("train", "holdout", "mix")),
             depth=2),
        dict(fmt="npz", eps=1, letters=A(("rej", "multi"),
                                         ("train", "mix")), depth=2),
        # no checksum algorithms / two of them; the dataset is opened,
        # checked and iterated in the writing process after every session
        dict(fmt="fb/nohash+reads", eps=2,
             letters=A(("root", "x", "x/y", "multi"), ("train", "mix")),
             depth=3),
        dict(fmt="npz/2hash+reads", eps=2,
             letters=A(("root", "x", "multi"), ("mix",)), depth=2),
    ]


def run(ctx):
    opseq.run_bfs_check(ctx, TAGS, plans(ctx.tier))
    opseq.run_explicit(ctx, TAGS, opseq.long_histories())
    ctx.cov["explanation"] = (
        "BFS over histories of completed writing sessions on real dataset "
        "directories (state = canonicalised metadata tree); after the last "
        "session of every history the metadata tree is recounted from the "
        "decoded shard files and compared entry by entry; the kept handle is "
        "compared with a fresh open")
    ctx.assumptions[:] = [
        "one live handle at a time; sessions complete (crashes are C06)",
        "state canonicalisation drops uuid names, timestamps and payload "
        "ids: the code never branches on them",
        "small scope: depth <= 3 (quick) over a 40-letter alphabet",
    ]


def replay(case):
    return opseq.replay_history(case, TAGS)
