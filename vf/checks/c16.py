"""C16: recorded checksums are the standard digests of the exact file bytes."""
from __future__ import annotations

import hashlib
import io
import itertools
import random
import shutil
import traceback
from pathlib import Path

from vf import core, dsfamily, ds as D, opseq
from vf.explorer import Explorer, FixedChooser

TAGS = {"C16"}
ALGOS = ("md5", "sha1", "sha224", "sha256", "sha384", "sha512", "sha3_224",
         "sha3_256", "sha3_384", "sha3_512", "xxh32", "xxh64", "xxh128")
BUF = 128 * 1024
# published digests of the empty input (XXH32, XXH64, XXH3-128, seed 0)
VECTORS = {"xxh32": "02cc5d05", "xxh64": "ef46db3751d8e999",
           "xxh128": "99aa06d3014798d86001c324468d497f",
           "md5": "d41d8cd98f00b204e9800998ecf8427e",
           "sha1": "da39a3ee5e6b4b0d3255bfef95601890afd80709",
           "sha256": "e3b0c44298fc1c149afbf4c8996fb924"
                     "27ae41e4649b934ca495991b7852b855"}


def reference(name: str, data: bytes) -> str:
    """Independent one-shot digest of the whole byte string."""
    if name.startswith("xxh"):
        import xxhash
        return {"xxh32": xxhash.xxh32_hexdigest,
                "xxh64": xxhash.xxh64_hexdigest,
                "xxh128": xxhash.xxh128_hexdigest}[name](data)
    return hashlib.new(name, data).hexdigest()


def contents(size: int, kind: str, seed: int) -> bytes:
    if kind == "zeros":
        return bytes(size)
    if kind == "ff":
        return b"\xff" * size
    if kind == "counter":
        return bytes(i & 0xff for i in range(size)) if size < 4096 else (
            bytes(range(256)) * (size // 256 + 1))[:size]
    return random.Random(seed * 1000003 + size).randbytes(size)


def tuples(tier: str) -> list[tuple]:
    out = [()] + [(a,) for a in ALGOS]
    pairs = list(itertools.product(ALGOS, repeat=2))
    out += pairs
    out += [ALGOS, tuple(reversed(ALGOS)), ("sha256", "md5", "sha256"),
            ("xxh64", "xxh64", "xxh32")]
    return out


def grid_case(args) -> dict:
    sizes, kinds, tups, seed = args
    from sedpack.io import utils
    root = core.fresh_dir("c16")
    out = {"bad": [], "cells": 0, "harness": None}
    try:
        for size in sizes:
            for kind in kinds:
                data = contents(size, kind, seed)
                p = root / f"f_{size}_{kind}"
                p.write_bytes(data)
                refs = {a: reference(a, data) for a in ALGOS}
                for t in tups:
                    out["cells"] += 1
                    try:
                        got = utils.hash_checksums(file_path=p, hashes=t)
                    except Exception as e:  # pylint: disable=broad-except
                        out["bad"].append(
                            ("raises", f"hash_checksums(size={size}, {kind}, "
                             f"{t}) raised {type(e).__name__}: {e}",
                             {"size": size, "content": kind,
                              "hashes": list(t)}))
                        continue
                    want = tuple(refs[a] for a in t)
                    if not isinstance(got, tuple) or got != want:
                        out["bad"].append(
                            ("digest", f"size={size} content={kind} "
                             f"algorithms={t}: got {got} expected {want}",
                             {"size": size, "content": kind,
                              "hashes": list(t)}))
                p.unlink()
        # published vectors (empty input)
        p = root / "empty"
        p.write_bytes(b"")
        for a, v in VECTORS.items():
            out["cells"] += 1
            got = utils.hash_checksums(file_path=p, hashes=(a,))
            if got != (v,):
                out["bad"].append(("vector", f"{a} of the empty file is "
                                   f"{got}, published value {v}",
                                   {"size": 0, "content": "zeros",
                                    "hashes": [a]}))
    except Exception as e:  # pylint: disable=broad-except
        out["harness"] = f"{type(e).__name__}: {e} " + traceback.format_exc(
        )[-400:]
    finally:
        shutil.rmtree(root, ignore_errors=True)
    return out


# ---------------------------------------------------------------------------
# short reads (E3 seam on utils.open)
# ---------------------------------------------------------------------------
class ShortFile(io.RawIOBase):

    def __init__(self, data: bytes, chooser, stats) -> None:
        super().__init__()
        self.data = data
        self.pos = 0
        self.chooser = chooser
        self.stats = stats

    def readable(self):
        return True

    def readinto(self, b) -> int:
        rem = len(self.data) - self.pos
        full = min(len(b), rem)
        if full <= 0:
            return 0
        opts = [full] + sorted({1, full // 2, full - 1} - {0, full})
        n = opts[self.chooser.choose(len(opts))]
        self.stats["reads"] += 1
        b[:n] = self.data[self.pos:self.pos + n]
        self.pos += n
        return n

    def read(self, size=-1):
        if size is None or size < 0:
            size = len(self.data) - self.pos
        buf = bytearray(size)
        n = self.readinto(buf)
        return bytes(buf[:n])


def short_read_case(args) -> dict:
    size, kind, t, bound, seed = args
    from sedpack.io import utils
    data = contents(size, kind, seed)
    want = tuple(reference(a, data) for a in t)
    stats = {"reads": 0}
    seams = {"bypassed": False}

    def run(ch):
        def fake_open(path, mode="r", *a, **kw):
            if "b" not in mode:
                raise core.HarnessError("text mode open in hash_checksums")
            return ShortFile(data, ch, stats)

        utils.open = fake_open
        try:
            return utils.hash_checksums(file_path=Path("/nonexistent/vf"),
                                        hashes=t)
        except FileNotFoundError:
            seams["bypassed"] = True
            return None
        except (OSError, AttributeError, TypeError, ValueError):
            # the code under test wants more of a file object than the seam
            # models (fileno, mmap, ...): short reads cannot be injected
            seams["bypassed"] = True
            return None
        finally:
            del utils.open

    bad = []

    def on_result(choices, got):
        if got is not None and got != want and len(bad) < 3:
            bad.append(("short-read",
                        f"size={size} algorithms={t}: with short reads "
                        f"{choices} the digest is {got}, expected {want}",
                        {"size": size, "content": kind, "hashes": list(t),
                         "choices": choices}))

    ex = Explorer(run, bound=bound, cache=False, max_executions=200000)
    ex.explore(on_result)
    st = ex.stats()
    return {"bad": bad, "executions": st["executions"],
            "transitions": st["transitions"], "capped": st["capped"],
            "bypassed": seams["bypassed"]}


def recorded_case(args) -> dict:
    """Every digest recorded in a real dataset equals the digest of the
    file's bytes, in the configured order."""
    name, hashes = args
    root = core.fresh_dir("c16r")
    out = {"bad": [], "digests": 0, "harness": None}
    try:
        if name == "unicode":
            # non-ASCII text in every metadata file whose digest is recorded
            from pathlib import Path as _P
            from sedpack.io import Metadata
            from sedpack.io.dataset_filler import DatasetFiller
            dataset = D.create(root, fmt="fb", eps=2, hashes=hashes,
                               metadata=Metadata(
                                   description="ünïcødé 日本語 ✓",
                                   custom_metadata={"k": ["é", "日本"]}))
            for s_, sub in enumerate((None, "x", None, "x/ÿ")):
                filler = dataset.filler() if sub is None else DatasetFiller(
                    dataset, relative_path_from_split=_P(sub))
                with filler as f:
                    for q in range(3):
                        f.write_example(
                            values=D.example((s_, 0, q)), split="train",
                            custom_metadata={"lábel": f"é日本{s_}{q // 2}",
                                             "n": [s_, "ß"]})
        else:
            dataset, _ = dsfamily.build(root, name, hashes=hashes)
        info = D.load_json(root / "dataset_info.json")

        def chk(rel, recorded, who):
            data = (root / rel).read_bytes()
            want = [reference(a, data) for a in hashes]
            out["digests"] += len(want)
            if list(recorded) != want:
                out["bad"].append(
                    ("recorded", f"{name} hashes={list(hashes)}: digests "
                     f"recorded for {rel} by {who} are {list(recorded)}, "
                     f"expected {want}",
                     {"name": name, "hashes": list(hashes)}))
            if any(d != d.lower() for d in recorded):
                out["bad"].append(("case", f"{rel}: digest not lowercase",
                                   {"name": name, "hashes": list(hashes)}))

        for split, rec in info["splits"].items():
            chk(rec["shard_list_info_file"]["file_path"],
                rec["shard_list_info_file"].get("hash_checksums", []),
                "dataset_info.json")
            for rel, doc, _ in D.walk_lists(root, rec):
                for sh in doc.get("shard_files", []):
                    fi = sh["file_infos"][0]
                    chk(fi["file_path"], fi.get("hash_checksums", []),
                        str(rel))
                for ch in doc.get("children_shard_lists", []):
                    fi = ch["shard_list_info_file"]
                    chk(fi["file_path"], fi.get("hash_checksums", []),
                        str(rel))
        cur = dataset.current_metadata_checksums()
        chk("dataset_info.json", cur, "current_metadata_checksums()")
    except Exception as e:  # pylint: disable=broad-except
        out["harness"] = f"{type(e).__name__}: {e} " + traceback.format_exc(
        )[-400:]
    finally:
        shutil.rmtree(root, ignore_errors=True)
    return out


def run(ctx):
    seed = ctx.seed
    sizes = [0, 1, 2, 63, 64, 65]
    for k in (1, 2, 3):
        sizes += [k * BUF - 1, k * BUF, k * BUF + 1]
    sizes += [1024 * 1024 + 3]
    if ctx.tier == "thorough":
        sizes += [4 * BUF + 7, 8 * BUF, 5 * 1024 * 1024 + 1]
    kinds = ("zeros", "ff", "counter", "random")
    tups = tuples(ctx.tier)
    tasks = [([s], kinds, tups, seed) for s in sizes]
    with core.pool() as ex:
        cells = 0
        for r in ex.map(grid_case, tasks):
            if r["harness"]:
                ctx.harness_error(r["harness"])
                continue
            cells += r["cells"]
            for sym, msg, case in r["bad"]:
                ctx.violation({"engine": "grid", "symptom": sym}, msg,
                              dict(case, kind="grid", seed=seed))
        ctx.part("digest grid: sizes x contents x algorithm tuples",
                 sizes=len(sizes), contents=len(kinds), tuples=len(tups),
                 cells=cells)
        ctx.add(evaluations=cells, distinct_nontrivial=cells)
        ctx.sample({"size": 2 * BUF + 1, "content": "random",
                    "algorithms": ["xxh32", "sha3_256"]})
        bound = 3 if ctx.tier == "thorough" else 2
        sr = [(s, "random", t, bound, seed)
              for s in (0, 1, 5, BUF - 1, BUF, BUF + 1, 2 * BUF + 5,
                        3 * BUF + 1)
              for t in (("sha256",), ("xxh32", "md5", "sha3_224"))]
        n = tr = 0
        for r in ex.map(short_read_case, sr):
            n += r["executions"]
            tr += r["transitions"]
            if r["bypassed"]:
                ctx.assumptions.append(
                    "short-read seam bypassed (hash_checksums no longer "
                    "uses the module-level open): short reads not explored")
            if r["capped"]:
                ctx.harness_error("short read exploration capped")
            for sym, msg, case in r["bad"]:
                ctx.violation({"engine": "choice", "symptom": sym}, msg,
                              dict(case, kind="short", seed=seed))
        ctx.part(f"short reads: every pattern with <= {bound} short "
                 f"readinto() answers", files=len(sr), executions=n,
                 choice_transitions=tr)
        ctx.add(evaluations=n, distinct_nontrivial=n)
        rec = [("nested", ALGOS), ("multi", ("xxh32", "md5")),
               ("cont", ("sha256", "sha256")), ("npz", ("xxh128",)),
               ("tfrec", ("sha3_512", "xxh64", "sha1")),
               ("unicode", ("sha256", "xxh32")),
               ("subtwice", ("sha256", "md5")), ("deep3", ("sha1",)),
               ("multi4", ("xxh64", "md5")), ("npznest", ("sha3_256",))]
        dg = 0
        for r in ex.map(recorded_case, rec):
            if r["harness"]:
                ctx.harness_error(r["harness"])
                continue
            dg += r["digests"]
            for sym, msg, case in r["bad"]:
                ctx.violation({"engine": "recorded", "symptom": sym}, msg,
                              dict(case, kind="recorded"))
        ctx.part("digests recorded in real datasets re-derived from the "
                 "bytes on disk", datasets=len(rec), digests=dg)
        ctx.add(evaluations=dg, distinct_nontrivial=dg)
    ctx.cov["rule"] = (
        "cell = (file size, content, ordered algorithm tuple): every single "
        "algorithm, every ordered pair (169), both orders of all 13, tuples "
        "with repetitions, the empty tuple; sizes around every multiple of "
        "the 128 KiB read buffer; oracle = independent one-shot digest + "
        "published vectors; all cells distinct")
    ctx.cov["exhaustive"] = True
    ctx.assumptions[:0] = [
        "reference digests come from hashlib / the one-shot xxhash API "
        "(cross-checked against published vectors of the empty input)",
    ]


def replay(case):
    core.import_sedpack_quietly()
    k = case.get("kind")
    if k == "grid":
        r = grid_case(([case["size"]], (case["content"],),
                       [tuple(case["hashes"])], case.get("seed", 0)))
        return [m for _, m, _ in r["bad"]]
    if k == "short":
        r = short_read_case((case["size"], case["content"],
                             tuple(case["hashes"]), 3, case.get("seed", 0)))
        return [m for _, m, _ in r["bad"]]
    r = recorded_case((case["name"], tuple(case["hashes"])))
    return [m for _, m, _ in r["bad"]]
