"""C10: shards respect the configured size (within-session + session BFS)."""
from vf import opseq, wseq

TAGS = {"C10"}


def letters(splits, vals, metas):
    return [(s, v, m) for s in splits for v in vals for m in metas]


def plans(tier):
    two = ("train", "test")
    M = ("-", "A", "B", "SA", "SB")
    if tier == "thorough":
        return [
            dict(fmt="fb", eps=e, depth=4,
                 letters=letters(two, ("ok", "shape1"), M)) for e in (1, 2, 3)
        ] + [
            dict(fmt="fb", eps=2, depth=6,
                 letters=letters(("train",), ("ok", "shape1"),
                                 ("-", "A", "B"))),
            dict(fmt="fb", eps=3, depth=7,
                 letters=letters(("train",), ("ok",), ("-", "A", "B"))),
            dict(fmt="npz", eps=2, depth=4,
                 letters=letters(("train",), ("ok", "shape1"), M)),
            dict(fmt="tfrec", eps=2, depth=3,
                 letters=letters(("train",), ("ok", "shape1"),
                                 ("-", "A", "B"))),
            dict(fmt="fb", eps=3, depth=6,
                 letters=letters(("train",), ("ok",),
                                 ("AX", "XA", "N1", "N2"))),
            dict(fmt="npz", eps=2, depth=4,
                 letters=letters(two, ("ok",), ("AX", "XA", "N1", "N2"))),
        ]
    return [
        dict(fmt="fb", eps=2, depth=3,
             letters=letters(two, ("ok", "shape1"), M)),
        dict(fmt="fb", eps=1, depth=3,
             letters=letters(two, ("ok",), ("-", "A", "B", "SA"))),
        dict(fmt="fb", eps=3, depth=5,
             letters=letters(("train",), ("ok", "shape1"), ("-", "A", "B"))),
        dict(fmt="npz", eps=2, depth=3,
             letters=letters(("train",), ("ok", "shape1"), ("-", "A", "SB"))),
        dict(fmt="tfrec", eps=2, depth=2,
             letters=letters(("train",), ("ok", "shape1"), ("-", "A", "B"))),
        # equal values whose keys were inserted in another order (no change)
        dict(fmt="fb", eps=3, depth=4,
             letters=letters(("train",), ("ok",), ("AX", "XA", "N1", "N2"))),
        dict(fmt="npz", eps=2, depth=3,
             letters=letters(two, ("ok",), ("AX", "XA"))),
        # values that are stored in another spelling than they are passed
        dict(fmt="fb", eps=3, depth=4,
             letters=letters(("train",), ("ok",), ("-", "T1", "T2"))),
    ]


def session_plans(tier):
    A = opseq.alphabet
    if tier == "thorough":
        return [dict(fmt="fb", eps=e, letters=A(opseq.KINDS_T), depth=2)
                for e in (1, 2, 3)]
    return [dict(fmt="fb", eps=e, letters=A(opseq.KINDS_Q, ("mix", "train")),
                 depth=2) for e in (1, 3)]


def run(ctx):
    wseq.run_plans(ctx, TAGS, plans(ctx.tier))
    opseq.run_bfs_check(ctx, TAGS, session_plans(ctx.tier))
    ctx.cov["explanation"] = (
        "all sequences of write_example calls (split x valid/rejected x "
        "metadata absent/A/B/shared-mutated object) up to the stated depth "
        "inside one filler context, for examples_per_shard 1..3; oracle on "
        "the decoded files: 1 <= size <= examples_per_shard and every shard "
        "but the last of a split is full unless two distinct metadata "
        "values were requested while it was open (lenient reading); plus "
        "session histories of depth 2")
    ctx.assumptions[:] = [
        "fullness oracle uses the lenient window of DESIGN.md section 3 C10",
        "examples_per_shard in {1,2,3}",
    ]


def replay(case):
    if case.get("kind") == "history":
        return opseq.replay_history(case, TAGS)
    return wseq.replay_seq(case, TAGS)
