"""E1 (within-session variant): all sequences of write_example calls.

A letter is ``(split, validity, meta)``.  One sequence = one filler context on
a fresh dataset.  Oracles of C10 (shard sizes / fullness), C11 (shard
metadata labels exactly its examples) and C18 (validation is all-or-nothing)
are evaluated on the decoded files and on the written metadata.
"""
from __future__ import annotations

import collections
import itertools
import json
import shutil
import traceback
from pathlib import Path

import numpy as np

from vf import core, ds as D

SHAPE_VIOLATIONS = {"shape0", "shape1", "shape2", "rank0", "rank2", "scalar1"}


def structure3(fmt: str, eps: int):
    """id (first), v (middle), m (last)."""
    from sedpack.io.metadata import Attribute, DatasetStructure
    comp = {"fb": "", "npz": "", "tfrec": ""}[fmt]
    return DatasetStructure(
        saved_data_description=[
            Attribute(name="id", dtype="int64", shape=(3,)),
            Attribute(name="v", dtype="float32", shape=(2,)),
            Attribute(name="m", dtype="int32", shape=(2, 2)),
        ],
        compression=comp,
        examples_per_shard=eps,
        shard_file_type=fmt,
        hash_checksum_algorithms=("md5",),
    )


def structure_b(fmt: str, eps: int):
    """id (first), b = variable-size bytes (middle), m (last)."""
    from sedpack.io.metadata import Attribute, DatasetStructure
    return DatasetStructure(
        saved_data_description=[
            Attribute(name="id", dtype="int64", shape=(3,)),
            Attribute(name="b", dtype="bytes", shape=()),
            Attribute(name="m", dtype="int32", shape=(2, 2)),
        ],
        compression="",
        examples_per_shard=eps,
        shard_file_type=fmt,
        hash_checksums_algorithms=("md5",),
    ) if False else DatasetStructure(
        saved_data_description=[
            Attribute(name="id", dtype="int64", shape=(3,)),
            Attribute(name="b", dtype="bytes", shape=()),
            Attribute(name="m", dtype="int32", shape=(2, 2)),
        ],
        compression="",
        examples_per_shard=eps,
        shard_file_type=fmt,
        hash_checksum_algorithms=("md5",),
    )


def values_b(validity: str, idt: tuple) -> dict:
    """Values for structure_b: the interesting violations sit in the
    attribute AFTER the variable-size one."""
    ex = {"id": np.array(idt, dtype=np.int64),
          "b": b"payload-" + bytes([65 + idt[2] % 26]) * (1 + idt[2]),
          "m": np.array([[idt[2], 1], [2, 3]], dtype=np.int32)}
    v = validity
    if v == "ok":
        pass
    elif v == "shape2":  # wrong shape after the variable-size attribute
        ex["m"] = np.zeros((2, 3), dtype=np.int32)
    elif v == "rank2":  # same number of elements, other rank
        ex["m"] = np.array([idt[2], 1, 2, 3], dtype=np.int32)
    elif v == "shape0":
        ex["id"] = np.array([1, 2, 3, 4], dtype=np.int64)
    elif v == "missing2":
        del ex["m"]
    elif v == "bigbytes":
        ex["b"] = bytes(range(256)) * 8
    elif v == "emptybytes":
        ex["b"] = b""
    else:
        raise ValueError(v)
    return ex


def decode_b(ex) -> tuple:
    i = np.asarray(ex["id"]).astype(np.int64).reshape(-1)
    m = np.asarray(ex["m"]).astype(np.int64)
    if i.shape != (3,) or m.shape != (2, 2) or m[0, 0] != i[2]:
        raise ValueError(f"decoded example id={i.tolist()} m={m.tolist()}")
    b = ex["b"]
    b = bytes(b) if not isinstance(b, np.ndarray) else bytes(b.item())
    return (int(i[0]), int(i[1]), int(i[2]), b)


def values_for(validity: str, idt: tuple) -> dict:
    ex = D.example(idt)
    ex["m"] = np.array([[idt[2], 1], [2, 3]], dtype=np.int32)
    v = validity
    if v == "ok":
        pass
    elif v == "oklist":  # plain python containers of the right shape
        ex = {"id": [int(x) for x in idt], "v": ex["v"], "m": ex["m"]}
    elif v == "shape0":
        ex["id"] = np.array([idt[0], idt[1], idt[2], 7], dtype=np.int64)
    elif v == "shape1":
        ex["v"] = np.array([1.0, 2.0, 3.0], dtype=np.float32)
    elif v == "shape2":
        ex["m"] = np.zeros((2, 3), dtype=np.int32)
    elif v == "rank0":
        ex["id"] = np.array([[idt[0], idt[1], idt[2]]], dtype=np.int64)
    elif v == "rank2":
        ex["m"] = np.zeros((4,), dtype=np.int32)
    elif v == "scalar1":
        ex["v"] = np.float32(1.0)
    elif v == "unsafe1":  # float64 values into a float32 attribute
        ex["v"] = np.array(ex["v"], dtype=np.float64)
    elif v == "unsafe2":  # int64 into int32
        ex["m"] = np.array(ex["m"], dtype=np.int64)
    elif v == "foreign0":  # strings into an integer attribute
        ex["id"] = np.array(["a", "b", "c"])
    elif v == "foreign2":
        ex["m"] = np.array([[1.5, 2.5], [3.5, 4.5]], dtype=np.float64)
    elif v == "missing1":
        del ex["v"]
    elif v == "missing2":
        del ex["m"]
    elif v == "extra":
        ex["zzz"] = np.zeros((2,), dtype=np.int32)
    elif v == "container":
        ex = [ex["id"], ex["v"], ex["m"]]
    else:
        raise ValueError(v)
    return ex


def decode3(ex) -> tuple:
    idt = D.to_id(ex)
    m = np.asarray(ex["m"]).astype(np.int64)
    exp = np.array([[idt[2], 1], [2, 3]], dtype=np.int64)
    if m.shape != (2, 2) or (m != exp).any():
        raise ValueError(f"example {idt}: attribute m decoded as {m.tolist()}")
    return idt


STRICT = ("ok", "oklist", "bigbytes", "emptybytes")
# fresh metadata values: plain ones, values that differ only in type, a
# value that extends another one, and falsy / null values
META_VALUES = {
    "A": {"k": "A"},
    "B": {"k": "B"},
    "I1": {"k": 1},
    "S1": {"k": "1"},
    "AX": {"k": "A", "x": 1},
    # the same value as AX with the keys inserted in the other order, also
    # one level down
    "XA": {"x": 1, "k": "A"},
    "N1": {"k": "A", "sub": {"p": 1, "q": [1, 2]}},
    "N2": {"sub": {"q": [1, 2], "p": 1}, "k": "A"},
    "F": {"flag": False, "tag": "", "n": None},
    # values whose JSON spelling differs from the Python object (tuple)
    "T1": {"k": "A", "window": (0, 100)},
    "T2": {"k": "A", "window": (0, 101)},
    # nested lists that are proper prefixes of one another
    "L1": {"k": "A", "seen": [7]},
    "L2": {"k": "A", "seen": [7, 9]},
    "L0": {"k": "A", "seen": []},
}


def _strict(x) -> str:
    return json.dumps(x, sort_keys=True, ensure_ascii=False)


def soft(ex):
    """Index of a decoded example, or None if its payload is not the
    canonical one (possible for accepted writes of foreign dtypes)."""
    try:
        return decode3(ex)[2]
    except Exception:  # pylint: disable=broad-except
        return None


def agrees(got: list, want: list, strict: dict) -> bool:
    """Positional comparison; only canonical writes must decode exactly."""
    if len(got) != len(want):
        return False
    for g, w in zip(got, want):
        if g != w and (strict.get(w, True) or g is not None):
            return False
    return True


def run_sequence(fmt: str, eps: int, seq: list, readers=("sync",)) -> dict:
    """seq: [(split, validity, meta)] with meta in - A B SA SB."""
    from sedpack.io import Dataset, Metadata
    root = core.fresh_dir("w")
    bad: list[tuple[str, str, str]] = []
    # "+reuse": the caller passes ONE dict object for every call (cleared and
    # refilled) and, where dtype and shape allow, the same arrays updated in
    # place - what a loop that recycles its buffers does
    reuse = "+reuse" in fmt
    fmt = fmt.replace("+reuse", "")
    box: dict = {}
    with_bytes = fmt.endswith("+b")
    fmt = fmt.split("+")[0]
    vals_fn = values_b if with_bytes else values_for
    global decode3
    saved_decode = decode3
    if with_bytes:
        def decode3(ex, _d=decode_b):  # noqa: F811
            return _d(ex)
    try:
        dataset = Dataset.create(
            path=root, metadata=Metadata(description="wseq"),
            dataset_structure=(structure_b if with_bytes else structure3)(
                fmt, eps))
        shared: dict = {"k": "init"}
        # (also updated three and four levels down: a copy that is deep for
        # two levels only still aliases those)
        nested: dict = {"k": {"v": "init", "deep": {"probe": {"gain": 0}}},
                        "l": ["init", 1, [["init"]]]}
        calls = []  # (idx, split, validity, meta value snapshot, accepted)
        try:
            with dataset.filler() as filler:
                for i, (split, val, meta) in enumerate(seq):
                    if meta == "-":
                        arg = None
                    elif meta in META_VALUES:
                        # a fresh object per call; deepcopy keeps tuples
                        # and the insertion order of the keys
                        import copy
                        arg = copy.deepcopy(META_VALUES[meta])
                    elif meta == "E":  # explicit empty dict
                        arg = {}
                    elif meta[0] == "N":
                        # one shared object whose NESTED values are updated
                        # in place (a shallow copy keeps aliasing them)
                        nested["k"]["v"] = meta[1]
                        nested["l"][0] = meta[1]
                        nested["k"]["deep"]["probe"]["gain"] = meta[1]
                        nested["l"][2][0][0] = meta[1]
                        arg = nested
                    else:
                        shared["k"] = meta[1]
                        arg = shared
                    snap = json.loads(json.dumps(arg)) if arg else None
                    idt = (0, 0, i)
                    try:
                        values = vals_fn(val, idt)
                        if reuse and isinstance(values, dict):
                            for k_, v_ in values.items():
                                old_ = box.get(k_)
                                if (isinstance(old_, np.ndarray) and
                                        isinstance(v_, np.ndarray) and
                                        old_.dtype == v_.dtype and
                                        old_.shape == v_.shape):
                                    old_[...] = v_
                                    values[k_] = old_
                            for k_ in list(box):
                                if k_ not in values:
                                    del box[k_]
                            box.update(values)
                            values = box
                        filler.write_example(values=values,
                                             split=split,
                                             custom_metadata=arg)
                        ok = True
                        err = None
                    except Exception as e:  # pylint: disable=broad-except
                        ok = False
                        err = f"{type(e).__name__}: {str(e)[:120]}"
                    calls.append((i, split, val, snap, ok, err))
                    if val in SHAPE_VIOLATIONS and ok:
                        bad.append(("C18", "shape-accepted",
                                    f"call {i} {val} violates the declared "
                                    f"shape but was accepted"))
                    if val in ("ok", "oklist") and not ok:
                        bad.append(("C18", "valid-rejected",
                                    f"valid call {i} (meta {meta}) after "
                                    f"{[c[2] + '/' + str(c[3]) for c in calls[:-1]]}"
                                    f" raised {err}"))
                # the caller keeps using its object after the last write
                shared["k"] = "Z"
                nested["k"]["v"] = "Z"
                nested["l"].append("Z")
                nested["k"]["deep"]["probe"]["gain"] = "Z"
                nested["l"][2][0][0] = "Z"
        except Exception as e:  # pylint: disable=broad-except
            tb = traceback.extract_tb(e.__traceback__)
            bad.append(("C18", "exit-fails",
                        f"leaving the filler context raised "
                        f"{type(e).__name__} in {tb[-1].name}: {str(e)[:120]}"))
            return {"seq": seq, "violations": bad, "calls": calls}
        shared["k"] = "Z2"
        nested["k"]["v"] = "Z2"

        # ---- decode everything -----------------------------------------
        info = D.load_json(root / "dataset_info.json")
        struct = dataset.dataset_structure
        per_split: dict[str, list] = {}
        for split, rec in info.get("splits", {}).items():
            shards = []
            for rel, doc, _ in D.walk_lists(root, rec):
                for sh in doc.get("shard_files", []):
                    fp = root / sh["file_infos"][0]["file_path"]
                    try:
                        got = [
                            soft(e) for e in D.shard_iterator(struct).
                            iterate_shard(fp)
                        ]
                    except Exception as e:  # pylint: disable=broad-except
                        bad.append(("C18", "undecodable",
                                    f"shard of {split} cannot be decoded "
                                    f"after accepted writes: "
                                    f"{type(e).__name__}: {str(e)[:120]}"))
                        got = None
                    shards.append((got, sh.get("number_of_examples", 0),
                                   sh.get("custom_metadata", {})))
            per_split[split] = shards

        accepted = collections.defaultdict(list)
        strict = {}
        for i, split, val, snap, ok, err in calls:
            strict[i] = val in STRICT or (val == "extra" and fmt == "fb")
            if ok:
                accepted[split].append(i)
        for split in set(accepted) | set(per_split):
            shards = per_split.get(split, [])
            if any(g is None for g, _, _ in shards):
                continue
            got_ids = [i for g, _, _ in shards for i in g]
            acc = accepted.get(split, [])
            if got_ids != acc and sorted(
                    x for x in got_ids if x is not None) == sorted(acc):
                bad.append(("C03", "write-order",
                            f"split {split}: written in the order {acc}, "
                            f"stored (listing order) as {got_ids}"))
            if not agrees(got_ids, accepted.get(split, []), strict):
                bad.append(("C18", "content",
                            f"split {split}: accepted calls "
                            f"{accepted.get(split, [])} but files hold "
                            f"{got_ids}"))
            for g, cnt, _ in shards:
                if cnt != len(g):
                    bad.append(("C18", "count",
                                f"split {split}: shard records {cnt} "
                                f"examples, holds {len(g)}"))
                if not 1 <= len(g) <= eps:
                    bad.append(("C10", "shard-size",
                                f"split {split}: shard with {len(g)} "
                                f"examples, examples_per_shard={eps}"))
            # C10 fullness (lenient window, see DESIGN.md)
            for j in range(len(shards) - 1):
                g = shards[j][0]
                nxt = shards[j + 1][0]
                if len(g) >= eps or not g or not nxt:
                    continue
                acc = accepted.get(split, [])
                pos = sum(len(shards[t][0]) for t in range(j))
                if pos + len(g) >= len(acc):
                    continue
                lo, hi = acc[pos], acc[pos + len(g)]
                req = {
                    json.dumps(c[3], sort_keys=True)
                    for c in calls
                    if c[1] == split and lo <= c[0] <= hi and c[3]
                }
                if len(req) < 2:
                    bad.append(("C10", "not-full",
                                f"split {split}: shard {j} holds {len(g)} < "
                                f"{eps} examples and is not the last one, "
                                f"without a metadata change (requested "
                                f"{sorted(req)})"))
            # C11: every example written with v lies in a shard labelled v
            where = {}
            acc = accepted.get(split, [])
            flat = [md for g, _, md in shards for _ in g]
            if len(flat) == len(acc):
                where = dict(zip(acc, flat))
            for i, sp, val, snap, ok, err in calls:
                if ok and sp == split and snap and i in where:
                    if _strict(where[i]) != _strict(snap):
                        bad.append(("C11", "mislabelled",
                                    f"split {split}: example {i} was written "
                                    f"with metadata {snap} but its shard is "
                                    f"labelled {where[i]}"))
        # a rejected write leaves no trace: no stray shard file either
        listed = set()
        for split, rec in info.get("splits", {}).items():
            for rel, doc, _ in D.walk_lists(root, rec):
                for sh in doc.get("shard_files", []):
                    listed.add(sh["file_infos"][0]["file_path"])
        stray = sorted(
            str(p) for p in D.all_files(root)
            if p.suffix in (".fb", ".npz", ".tfrec") and str(p) not in listed)
        if stray:
            bad.append(("C18", "stray-file",
                        f"{len(stray)} shard file(s) on disk that no list "
                        f"names after the session"))
        # ---- through the dataset readers --------------------------------
        fresh = Dataset(root)
        for split, idx in accepted.items():
            if not idx:
                continue
            for reader in readers:
                try:
                    got = [soft(e) for e in D.iterate(fresh, split, reader)]
                except Exception as e:  # pylint: disable=broad-except
                    bad.append(("C18", "unreadable",
                                f"reader {reader} fails on split {split} "
                                f"after accepted writes: {type(e).__name__}: "
                                f"{str(e)[:120]}"))
                    continue
                if got != idx and sorted(
                        x for x in got if x is not None) == sorted(idx):
                    bad.append(("C03", "write-order",
                                f"split {split}: written in the order {idx}, "
                                f"reader {reader} yields {got}"))
                if not agrees(got, idx, strict):
                    bad.append(("C18", "reader-content",
                                f"reader {reader}: {got} expected {idx}"))
            # shard_filter by metadata (C11 second sentence)
            vals = {}
            for i, sp, val, snap, ok, err in calls:
                if ok and sp == split and snap:
                    vals.setdefault(json.dumps(snap, sort_keys=True),
                                    []).append(i)
            with_meta = {i for v in vals.values() for i in v}
            for key, members in vals.items():
                want = json.loads(key)
                try:
                    got = [
                        soft(e) for e in fresh.as_numpy_iterator(
                            split=split,
                            repeat=False,
                            shuffle=0,
                            shard_filter=lambda s, w=want: _strict(
                                s.custom_metadata) == _strict(w))
                    ]
                except ValueError as e:
                    got = []
                except Exception as e:  # pylint: disable=broad-except
                    bad.append(("C18", "unreadable",
                                f"filtered iteration of {split} fails after "
                                f"accepted writes: {type(e).__name__}: "
                                f"{str(e)[:120]}"))
                    continue
                need = {i for i in members if strict.get(i, True)}
                if not need <= set(got) or (set(got) & with_meta) - set(
                        members):
                    bad.append(("C11", "filter",
                                f"split {split}: selecting shards labelled "
                                f"{want} yields {got}; examples written under "
                                f"it: {members}"))
        return {"seq": seq, "violations": bad, "calls": calls}
    finally:
        decode3 = saved_decode
        shutil.rmtree(root, ignore_errors=True)


def run_chunk(args) -> list[dict]:
    fmt, eps, seqs, readers = args
    out = []
    for s in seqs:
        try:
            r = run_sequence(fmt, eps, list(s), readers)
            out.append({"seq": s, "violations": r["violations"],
                        "accepted": sum(1 for c in r["calls"] if c[4]),
                        "rejected": sum(1 for c in r["calls"] if not c[4])})
        except Exception as e:  # pylint: disable=broad-except
            out.append({"seq": s, "violations": [],
                        "harness": f"{type(e).__name__}: {e} "
                                   f"{traceback.format_exc()[-300:]}"})
    return out


def sequences(letters: list, depth: int):
    for d in range(1, depth + 1):
        yield from itertools.product(letters, repeat=d)


def run_plans(ctx, tags: set[str], plans: list[dict]) -> None:
    """plans: [{fmt, eps, letters, depth, readers}]."""
    other = collections.Counter()
    distinct = set()
    with core.pool() as ex:
        for plan in plans:
            seqs = list(sequences(plan["letters"], plan["depth"]))
            nw = getattr(ex, "_max_workers", 8)
            chunk = max(1, min(200, len(seqs) // (nw * 4) + 1))
            tasks = [(plan["fmt"], plan["eps"], seqs[i:i + chunk],
                      tuple(plan.get("readers", ("sync",))))
                     for i in range(0, len(seqs), chunk)]
            n = acc = rej = 0
            for res in ex.map(run_chunk, tasks):
                for r in res:
                    n += 1
                    if r.get("harness"):
                        ctx.harness_error(f"{r['seq']}: {r['harness']}")
                        continue
                    acc += r["accepted"]
                    rej += r["rejected"]
                    distinct.add((plan["fmt"], plan["eps"], r["seq"]))
                    for prop, sym, msg in r["violations"]:
                        if prop in tags:
                            ctx.violation(
                                {"engine": "wseq", "symptom": sym,
                                 "fmt": plan["fmt"]},
                                f"{plan['fmt']} eps={plan['eps']} sequence "
                                f"{list(r['seq'])}: {msg}",
                                {"kind": "wseq", "fmt": plan["fmt"],
                                 "eps": plan["eps"], "seq": list(r["seq"]),
                                 "readers": list(plan.get("readers",
                                                          ("sync",)))})
                        else:
                            other[prop] += 1
            name = (f"{plan['fmt']} eps={plan['eps']} depth<={plan['depth']} "
                    f"alphabet={len(plan['letters'])}")
            ctx.part(name, sequences=n, accepted_calls=acc, rejected_calls=rej)
            ctx.add(states=n, transitions=acc + rej,
                    traces_validated_against_impl=n)
            ctx.sample({"fmt": plan["fmt"], "eps": plan["eps"],
                        "sequence": [list(l) for l in seqs[len(seqs) // 2]]})
    ctx.cov["violations_of_other_properties_seen"] = dict(other)
    ctx.cov["exhaustive"] = True


def replay_seq(case: dict, tags: set[str]) -> list[str]:
    core.import_sedpack_quietly()
    r = run_sequence(case["fmt"], case["eps"],
                     [tuple(l) for l in case["seq"]],
                     tuple(case.get("readers", ("sync",))))
    return [m for p, s, m in r["violations"] if p in tags]
