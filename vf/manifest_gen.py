"""Regenerates /verif/MANIFEST.json from the table below:
    /venv/bin/python -m vf.manifest_gen
"""
import json
from pathlib import Path

from vf.core import VERIF, level_of

PY = "/venv/bin/python -u -m vf"

CHECKS = {
    "C13": dict(
        engine="sched",
        technique="stateless model checking of the real lazy_pool.py under a "
        "cooperative scheduler: exhaustive interleaving enumeration with "
        "state caching / preemption bounding",
        text="Every interleaving (queue/thread-operation granularity) of "
        "consumer + T workers of the real module for T<=3(4), n<=2T+4: "
        "full pass, every early-exit position, failing input at every "
        "position, infinite source, early exit followed by a second pass "
        "on the same pool. Complete (all reachable states) for small "
        "(T,n), preemption-bounded beyond; line-granularity pass as race "
        "detector substitute. Oracle: multiset of results, termination, "
        "no deadlock (exact), all workers finished.",
        note="CPython GIL semantics; fakes of queue/threading primitives are "
        "faithful (differential self-test); hidden iterator state on the "
        "value stack is not part of the state key (guarded by the "
        "cached-vs-uncached comparison).",
        design="DESIGN.md section 3 C13, section 2 E2"),
    "C04": dict(
        engine="opseq",
        technique="explicit-state BFS over writer-session histories executed "
        "on the real code (state caching on the canonicalised metadata tree) "
        "with an independent recount oracle",
        text="All histories of completed sessions up to depth 3 (quick) / 3-5 "
        "(thorough) over a 40-56 letter alphabet (root / x / y / x/y "
        "sub-directory fillers, multi-writer calls incl. an idle writer, "
        "4 split patterns, kept or reopened handle), formats fb/npz/tfrec; "
        "in every reached state the whole metadata tree is recounted from "
        "the decoded shard files.",
        note="Sessions complete (no crash); one live handle; counts per "
        "session from a fixed small set; canonical state drops uuids, "
        "timestamps and payload ids.",
        design="DESIGN.md section 3 C04, section 2 E1"),
    "C08": dict(
        engine="opseq",
        technique="explicit-state BFS over writer-session histories executed "
        "on the real code, reference model = dict split -> list of ids",
        text="Same search as C04 with the refused Dataset.create as an extra "
        "letter: after every history the decoded content of every split "
        "equals the reference model (nothing lost, nothing duplicated, "
        "exactly the new examples added), every allowed session completes, "
        "create on an existing dataset raises and leaves the directory "
        "byte-identical.",
        note="As C04.",
        design="DESIGN.md section 3 C08, section 2 E1"),
    "C10": dict(
        engine="wseq",
        technique="exhaustive enumeration of all write_example call "
        "sequences up to a depth on the real filler (bounded model checking "
        "of the shard roll-over logic) + session-history BFS",
        text="Every sequence of write_example calls over (split x "
        "valid/rejected x metadata absent/A/B/shared-mutated dict) up to "
        "depth 3-5 (quick) / 4-7 (thorough), examples_per_shard 1..3, "
        "fb/npz/tfrec; oracle on the decoded files: 1<=size<=eps and all "
        "but the last shard full unless the metadata changed.",
        note="Lenient reading of 'as long as the metadata does not change' "
        "(two distinct requested values in the window).",
        design="DESIGN.md section 3 C10"),
    "C11": dict(
        engine="wseq",
        technique="exhaustive enumeration of all write_example call "
        "sequences up to a depth on the real filler, metadata argument "
        "incl. an aliased dict mutated in place",
        text="Every sequence up to depth 3-5 (quick) / 4-6 (thorough) with "
        "the metadata argument absent, empty, fresh A/B, or one shared dict "
        "mutated before each call and after the last write; every labelled "
        "example must lie in a shard recorded with the value at call time "
        "and shard_filter on that value must return all and only them.",
        note="Examples written without metadata are unconstrained.",
        design="DESIGN.md section 3 C11"),
    "C18": dict(
        engine="wseq",
        technique="exhaustive enumeration of write_example call sequences "
        "over 16 kinds of (in)valid call x metadata, all formats, plus a "
        "complete declaration grid (dtype x shape x format)",
        text="All sequences up to depth 2-3 (quick) / 2-4 (thorough): shape "
        "violations must raise, valid calls must be accepted, raising calls "
        "leave no trace (content, counts, stray files, later calls), "
        "accepted calls keep every reader of the format working; 126 "
        "declarations (accepted => decodable).",
        note="Known findings: fb with dtype str/bytes and tfrec with float64 "
        "are accepted but undecodable (known_findings.json).",
        design="DESIGN.md section 3 C18"),
    "C02": dict(
        engine="choice+sched+dataset_mc",
        technique="exhaustive enumeration of every random draw of the "
        "shuffle helpers (choice-sequence DFS), complete interleaving "
        "exploration of the lazy pool, and deviation-bounded joint "
        "exploration (schedules x random draws) of the real dataset "
        "iterators under a cooperative scheduler",
        text="(a) all outcomes of shuffle_buffer/round_robin (sync+async, 4 "
        "source presentations) for n<=6, all buffer sizes; (b) all "
        "interleavings of the lazy pool; (c) dataset family x 5 interfaces x "
        "6 shuffle sizes x 4 parallelism values x process_record on the OS "
        "schedule; (d) concurrent readers with pool/executor threads and "
        "random draws controlled, deviation bound 1-2 (quick) / 2-3. "
        "Oracle: multiset of ids == multiset written, process_record "
        "applied exactly once.",
        note="tf.data and Rust threads run on the OS schedule at dataset "
        "level; the cooperative ThreadPoolExecutor is a model of the stdlib "
        "one.",
        design="DESIGN.md section 3 C02"),
    "C03": dict(
        engine="dataset+dataset_mc+opseq",
        technique="differential comparison over an enumerated configuration "
        "space plus enumeration of all batch completion orders of the "
        "unshuffled concurrent reader under a cooperative executor "
        "(deviation bounded), plus session-history BFS",
        text="For every dataset of the family: shuffle=0 sequences of every "
        "interface x file_parallelism {1,2,S,S+2} x 2 passes x kept/reopened "
        "handle are identical and list every session in write order; the "
        "executor path under all completion orders; histories of depth 2 "
        "with interleaved splits.",
        note="Rust/tf.data timing not controlled here (C15 explores the Rust "
        "parallel map).",
        design="DESIGN.md section 3 C03"),
    "C14": dict(
        engine="choice+sched+dataset_mc",
        technique="read-ahead measured in every state of the exhaustive "
        "explorations (random draws, lazy-pool interleavings) with a "
        "differential oracle over stream lengths N,2N,4N,infinite",
        text="Unit level: all random draws of take-k from shuffle buffer / "
        "round robin for 4 lengths; lazy pool: every interleaving of early "
        "exit for n, 2n, infinite sources; dataset level: controlled "
        "concurrent/sync/async take-k from repeating streams and "
        "OS-schedule runs of all interfaces (incl. Rust, tf.data) with "
        "inotify open counts.",
        note="Generous cap 4(b+T)+8; tf.data only termination.",
        design="DESIGN.md section 3 C14"),
    "C19": dict(
        engine="dataset+dataset_mc",
        technique="enumeration of configuration space over stream prefixes of "
        "3 epochs + deviation-bounded exploration of random draws and pool "
        "interleavings on repeating streams",
        text="Default (repeating) streams of every interface x shuffle x "
        "parallelism over the dataset family: first 3N+2 elements all from "
        "the split; unshuffled periodic; Rust epochs are permutations; "
        "abandon/re-enter Rust streams.",
        note="prefixes only; tf.data/Rust on the OS schedule.",
        design="DESIGN.md section 3 C19"),
    "C05": dict(
        engine="faults+opseq",
        technique="exhaustive single-fault enumeration on committed "
        "datasets (every reachable file x every byte offset x fault kinds) "
        "plus acceptance in every state of the session-history BFS",
        text="Every reachable file x every offset: bit flip (1 bit/byte "
        "quick, 8 thorough) and truncation to that length; extension by "
        "3 byte values; deletion; swap with every sibling of the same kind; "
        "rollback to every older version; subsets of metadata files rolled "
        "back together; on flat / nested / multi-writer / continued "
        "datasets and 1, 2 and 13 checksum algorithms; handle opened "
        "before and after the fault must both raise. Acceptance: check() "
        "with and without root checksums passes in every state of the "
        "history search.",
        note="An error at open counts as detection; root checksums always "
        "supplied; single faults (plus rollback sets), not arbitrary "
        "multi-fault sequences.",
        design="DESIGN.md section 3 C05, section 2 E6"),
    "C06": dict(
        engine="crash",
        technique="crash-point enumeration: every prefix (and torn-write "
        "variant) of the strace-recorded file-system effect log of a real "
        "writer history is materialised and recovered; consistent cuts for "
        "worker processes; monotonicity invariant on the log",
        text="6 (quick) / 9 (thorough) recorded histories (first and "
        "continued root sessions, sub-directory, nested, reused "
        "sub-directory, multi-writer in-process and with real worker "
        "processes; fb, npz, tfrec): ~1500 crash states per run. Oracle per "
        "state: every metadata file is a complete valid installed version, "
        "the dataset opens, every reachable shard exists and matches its "
        "checksums, iteration returns all committed and only handed-over "
        "examples with intact payloads.",
        note="Process-crash model (no fsync reordering); one recorded run "
        "per history; replay fidelity checked byte for byte on every run.",
        design="DESIGN.md section 3 C06, section 2 E4"),
    "C12": dict(
        engine="grid",
        technique="exhaustive enumeration of the option grid (k x predicate "
        "x per-metadata limit x interface x format) against an executable "
        "reference of the documented meaning",
        text="Datasets with 5-6 shards in metadata groups, fb/npz/tfrec: "
        "every shards k in 1..S+1, 5 predicates (none/some/all/by group/"
        "unlabelled), type limit 1,2,>group, every interface that accepts "
        "the option (sync, concurrent, async, Rust, tf.data); single "
        "options against the documented meaning, combinations across "
        "interfaces, empty selections must raise.",
        note="combinations: only agreement between interfaces is required.",
        design="DESIGN.md section 3 C12"),
    "C16": dict(
        engine="grid+choice",
        technique="exhaustive grid (file size x content x ordered algorithm "
        "tuple) against independent one-shot digests, plus enumeration of "
        "all short-read patterns of the read loop (environment answers, "
        "deviation bounded)",
        text="16-19 sizes around every multiple of the 128 KiB buffer x 4 "
        "contents x 187 tuples (all singles, all 169 ordered pairs, both "
        "orders of all 13, repetitions, empty); published vectors; every "
        "pattern of <=2 (3) short readinto answers; every digest recorded "
        "in 5 real datasets re-derived from the bytes.",
        note="reference = hashlib / one-shot xxhash API.",
        design="DESIGN.md section 3 C16"),
    "C17": dict(
        engine="paths",
        technique="exhaustive enumeration of path strings (all component "
        "sequences up to length 3/4 over a 6-letter alphabet, absolute and "
        "relative, separator variants, canary paths) x path-valued fields, "
        "observed with audit hooks + inotify",
        text="For every string in every path-valued field (shard path, "
        "child list path, split list path, relative_path_self, filler "
        "sub-directory): open, check, every iterator, a writing session; "
        "nothing outside the dataset root may be opened, created or "
        "changed (Python audit events, inotify on the outside directory "
        "for Rust/tf.data, directory diff).",
        note="symbolic links out of scope.",
        design="DESIGN.md section 3 C17"),
    "C20": dict(
        engine="grid",
        technique="exhaustive enumeration of three small-scope grids "
        "(descriptions, relocations, version triples) with executable "
        "oracles",
        text="Descriptions: every compression x format, covering family of "
        "checksum tuples, all JSON values of depth<=2 over 13 atoms at "
        "dataset/attribute/shard level, unicode/control texts. "
        "Relocation: copy/move x 6 target names x 5 ways of opening, then "
        "check, iterate, two further sessions + full recount. Version "
        "gate: all triples around the running version + suffixes.",
        note="finite JSON numbers only.",
        design="DESIGN.md section 3 C20"),
    "C15": dict(
        engine="gates",
        technique="stateless exploration of every completion order of the "
        "worker threads of the real parallel_map.rs (gate harness with a "
        "quiescence-driven controller, DFS over release choices) + "
        "end-to-end differential grid against the Python reader",
        text="parallel_map for n<=5 (7), T<=4 (5): every order in which "
        "items finish, every early-drop position; outputs in order, "
        "bounded pulls, drop terminates, no thread left. End to end with "
        "the extension rebuilt from the working tree: 4 compressions x "
        "1..5(6) shards x thread counts below/at/above x 2 layouts x "
        "shuffle 0 / >0, abandonment at every position + fresh pass.",
        note="completion-order granularity; quiescence judged from /proc "
        "(misjudgement = harness error).",
        design="DESIGN.md section 3 C15, section 2 E5"),
    "C01": dict(
        engine="grid",
        technique="exhaustive small-scope enumeration (format x compression "
        "x attribute layout x value pattern x presentation x reader) with a "
        "bit-exact executable oracle; all values of 8/16-bit dtypes",
        text="All compressions of fb/npz/tfrec (quick: rotated, thorough: "
        "full product) x layouts covering every (dtype, rank 0..4) pair in "
        "first/middle/last position x 18 examples per dataset cycling "
        "through special bit patterns (min/max/0/+-1, walking bits, +-inf, "
        "q/sNaN payloads, subnormals, 64+ seeded random patterns) x 9 "
        "presentations x readers sync/concurrent/async/Rust(rebuilt)/tf.data; "
        "all 2^8/2^16 values of 8/16-bit dtypes; tfrec str/bytes incl. "
        "NUL/unicode/4 KiB.",
        note=">=32-bit dtypes: alphabet of bit patterns; rejected "
        "presentations are counted, not violations.",
        design="DESIGN.md section 3 C01"),
    "C07": dict(
        engine="gates+dataset_mc+dataset",
        technique="fault x configuration x schedule enumeration: Rust "
        "parallel_map with a panicking item under every completion order; "
        "concurrent Python reader with a damaged shard under the "
        "cooperative scheduler (exact deadlock detection, deviation "
        "bounded); all interfaces on the OS schedule with a watchdog",
        text="Formats fb (compressed and raw), npz, tfrec x damaged shard "
        "first/middle/last x deleted/emptied/truncated/garbage x interface "
        "x shuffle on/off x file_parallelism 1/2/>n; a pass must raise "
        "whenever the format's own decoder rejects the file "
        "(self-calibrated); never a deadlock, never a normal end with "
        "fewer examples.",
        note="async / tf.data only on the OS schedule (60 s watchdog). "
        "Once passes have hung (each one a reported violation) the OS-"
        "schedule part ends after the current wave of damaged datasets and "
        "the evidence says so (exhaustive false, cap); on a tree without "
        "hangs nothing is skipped.",
        design="DESIGN.md section 3 C07"),
    "C09": dict(
        engine="procgates",
        technique="exhaustive enumeration of all interleavings of the "
        "writers' steps with real worker processes driven over pipes "
        "(stateless exploration of process schedules at step granularity)",
        text="7 (10) writer lists (uneven loads, several splits per writer, "
        "idle writers, single writer) x every distinct interleaving of the "
        "writers' steps (write_example / context exit) for fb, every third "
        "for npz/tfrec (all in thorough); plus a finer exploration where "
        "every file-system effect of a worker inside the dataset (open for "
        "reading or writing, rename, mkdir) is a step, preemption bound 1 "
        "(2); compared with the single_process=True run: canonical metadata "
        "tree, iteration sequence, full recount, check(), return values in "
        "order, write-opened paths of workers pairwise disjoint.",
        note="one worker runs at a time (overlap inside a single system call is not modelled); fork start method.",
        design="DESIGN.md section 3 C09"),
}

NOT_YET = "check not built yet in this session (planned, see DESIGN.md section 3)"


def main() -> None:
    props = [
        json.loads(l)["id"]
        for l in (VERIF / "properties.jsonl").read_text().splitlines()
        if l.strip()
    ]
    checks = []
    na = []
    for pid in props:
        c = CHECKS.get(pid)
        if c is None:
            na.append({"property_id": pid, "reason": NOT_YET})
            continue
        checks.append({
            "property_id": pid,
            "quick_cmd": f"{PY} {pid} --tier quick",
            "thorough_cmd": f"{PY} {pid} --tier thorough",
            "evidence_file": f"/verif/evidence/{pid}.json",
            "replay_cmd_template": f"{PY} replay {{path}}",
            "engine": c["engine"],
            "level_claimed": {
                "category": level_of(pid),
                "text": c["text"],
                "design_ref": c["design"],
            },
            "level_note": c["note"],
            "technique": c["technique"],
        })
    man = {
        "version": 1,
        "setup_cmd": "/venv/bin/python -m vf.setup",
        "hooks": {
            "guard": "SEDPACK_VERIF",
            "enable": "no source hooks are used: all seams are external "
                      "(import substitution, module attributes, public "
                      "callbacks, strace, #[path] inclusion)",
            "baseline_off_cmd": "cd /repo && /venv/bin/python -m pytest -ra -q "
                                "-p no:cacheprovider --timeout=900 "
                                "--continue-on-collection-errors",
            "source_commits": [],
            "add_only": True,
        },
        "engines": [
            {"name": "opseq", "path": "vf/opseq.py",
             "serves_properties": ["C04", "C08", "C05", "C10", "C03", "C16"],
             "kind_free_text": "BFS over operation histories of the real "
                               "writer with state caching and a reference "
                               "model"},
            {"name": "wseq", "path": "vf/wseq.py",
             "serves_properties": ["C10", "C11", "C18"],
             "kind_free_text": "all write_example sequences inside one "
                               "filler context, oracles on decoded files"},
            {"name": "choice", "path": "vf/itertools_mc.py",
             "serves_properties": ["C02", "C14"],
             "kind_free_text": "every random draw of the real shuffle "
                               "helpers is an explorer choice"},
            {"name": "dataset_mc", "path": "vf/dataset_mc.py",
             "serves_properties": ["C02", "C03", "C14", "C19", "C07"],
             "kind_free_text": "real dataset iterators with lazy pool / "
                               "executor threads under the cooperative "
                               "scheduler and random draws as choices"},
            {"name": "crash", "path": "vf/crash.py + vf/crash_writer.py",
             "serves_properties": ["C06"],
             "kind_free_text": "strace effect log -> every crash prefix / "
                               "torn write / consistent cut, recovery "
                               "oracle on the real reader"},
            {"name": "faults", "path": "vf/checks/c05.py",
             "serves_properties": ["C05"],
             "kind_free_text": "single-fault enumeration on committed "
                               "datasets"},
            {"name": "gates", "path": "rs/pmap_mc + vf/pmap_mc.py",
             "serves_properties": ["C15", "C07", "C14"],
             "kind_free_text": "Rust harness crate including "
                               "/repo/rust/src/parallel_map.rs by #[path]; "
                               "controller releases gated items one at a "
                               "time, Python drives the DFS"},
            {"name": "procgates", "path": "vf/checks/c09.py",
             "serves_properties": ["C09"],
             "kind_free_text": "controller thread plays every interleaving "
                               "of real writer processes over inherited "
                               "pipes"},
            {"name": "grid", "path": "vf/checks/c01.py c12.py c16.py c17.py "
                                     "c20.py",
             "serves_properties": ["C01", "C12", "C16", "C17", "C20"],
             "kind_free_text": "small-scope input grids with executable "
                               "oracles"},
            {"name": "sched", "path": "vf/sched.py + vf/lazypool_mc.py",
             "serves_properties": ["C13", "C14", "C02", "C07"],
             "kind_free_text": "cooperative scheduler + choice-sequence DFS "
                               "explorer with state caching (vf/explorer.py)"},
        ],
        "checks": checks,
        "notes": "All checks run the implementation in /repo's working tree; "
                 "known_findings.json lists genuine defects (fixed or known).",
        "not_applicable": na,
    }
    (VERIF / "MANIFEST.json").write_text(json.dumps(man, indent=1) + "\n")
    print(f"MANIFEST.json: {len(checks)} checks, {len(na)} not claimed")


if __name__ == "__main__":
    main()
