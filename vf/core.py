"""Shared runner pieces: context, evidence, known findings, scratch, workers.

Every check module exposes

    run(ctx)            -> None   (reports through ctx)
    replay(case: dict)  -> list[str]   (violation descriptions; empty = holds)

and is started as ``python -m vf <ID> --tier quick|thorough``.
"""
from __future__ import annotations

import atexit
import json
import os
import shutil
import subprocess
import sys
import time
from pathlib import Path

VERIF = Path(__file__).resolve().parent.parent
REPO = Path(os.environ.get("VERIF_REPO", "/repo"))
SRC = REPO / "src"
EVIDENCE_DIR = VERIF / "evidence"
REPLAY_DIR = VERIF / "replays"
FINDINGS_FILE = VERIF / "known_findings.json"
SCRATCH_ROOT = Path("/dev/shm") if Path("/dev/shm").is_dir() else Path("/var/tmp")

LEVELS = {
    "C01": "exploration", "C12": "exploration", "C16": "exploration",
    "C17": "exploration", "C20": "exploration",
    "C05": "fault_enumeration", "C06": "fault_enumeration",
    "C07": "fault_enumeration",
}


def level_of(pid: str) -> str:
    return LEVELS.get(pid, "model_checking")


class HarnessError(Exception):
    """Trouble of the machinery itself: never reported as a VIOLATION."""


# ---------------------------------------------------------------------------
# scratch directories (outside /repo and /verif)
# ---------------------------------------------------------------------------
_scratch: Path | None = None


def scratch() -> Path:
    """Per-process scratch directory, removed at exit."""
    global _scratch
    if _scratch is None or not _scratch.is_dir():
        _scratch = SCRATCH_ROOT / f"sedpack-verif.{os.getpid()}"
        shutil.rmtree(_scratch, ignore_errors=True)
        _scratch.mkdir(parents=True)
        atexit.register(shutil.rmtree, str(_scratch), True)
    return _scratch


def clean_stale_scratch() -> None:
    for p in SCRATCH_ROOT.glob("sedpack-verif.*"):
        try:
            pid = int(p.name.split(".")[1])
        except (IndexError, ValueError):
            continue
        if not Path(f"/proc/{pid}").exists():
            shutil.rmtree(p, ignore_errors=True)


_counter = 0


def fresh_dir(tag: str = "d") -> Path:
    global _counter
    _counter += 1
    p = scratch() / f"{tag}{_counter}"
    shutil.rmtree(p, ignore_errors=True)
    p.mkdir(parents=True)
    return p


# ---------------------------------------------------------------------------
# known findings
# ---------------------------------------------------------------------------
def load_findings(pid: str) -> list[dict]:
    if not FINDINGS_FILE.is_file():
        return []
    data = json.loads(FINDINGS_FILE.read_text())
    return [
        f for f in data.get("findings", [])
        if f.get("property") == pid and f.get("status") == "known"
    ]


def _matches(match: dict, sig: dict) -> bool:
    for k, v in match.items():
        if k not in sig:
            return False
        if isinstance(v, list):
            if sig[k] not in v:
                return False
        elif sig[k] != v:
            return False
    return True


# ---------------------------------------------------------------------------
# context
# ---------------------------------------------------------------------------
class Ctx:
    """Collects coverage and violations of one check run."""

    def __init__(self, pid: str, tier: str, seed: int) -> None:
        self.pid = pid
        self.tier = tier
        self.seed = seed
        self.t0 = time.time()
        self.violations: list[dict] = []
        self.known_hits: dict[int, int] = {}
        self.findings = load_findings(pid)
        self.cov: dict = {}
        self.assumptions: list[str] = []
        self.samples: list = []
        self.parts: dict = {}
        self.harness_errors: list[str] = []
        self._replays = 0

    # -- reporting ---------------------------------------------------------
    def violation(self, sig: dict, what: str, case: dict) -> None:
        """Report one violating case.

        sig : small dict identifying the failing case class (matched against
              known_findings.json); case: everything `replay` needs.
        """
        for i, f in enumerate(self.findings):
            if _matches(f["match"], sig):
                self.known_hits[i] = self.known_hits.get(i, 0) + 1
                return
        # Group identical signatures: one VIOLATION line per signature.
        key = json.dumps(sig, sort_keys=True, default=str)
        for v in self.violations:
            if v["key"] == key:
                v["count"] += 1
                return
        self._replays += 1
        REPLAY_DIR.mkdir(exist_ok=True)
        path = REPLAY_DIR / f"{self.pid}-{self._replays}.json"
        path.write_text(
            json.dumps(
                {
                    "property": self.pid,
                    "sig": sig,
                    "what": what,
                    "case": case
                },
                indent=1,
                default=str))
        self.violations.append({
            "key": key,
            "sig": sig,
            "what": what,
            "path": str(path),
            "count": 1
        })

    def harness_error(self, msg: str) -> None:
        self.harness_errors.append(msg)

    def sample(self, s, limit: int = 6) -> None:
        if len(self.samples) < limit:
            self.samples.append(s)

    def part(self, name: str, **kw) -> None:
        """Record measured numbers of one sub-exploration."""
        self.parts[name] = kw

    def add(self, **kw) -> None:
        """Accumulate integer coverage counters."""
        for k, v in kw.items():
            self.cov[k] = self.cov.get(k, 0) + v

    # -- finishing ---------------------------------------------------------
    def finish(self) -> int:
        level = level_of(self.pid)
        cov = dict(self.cov)
        cov["samples"] = self.samples or ["(no case explored)"]
        cov["parts"] = self.parts
        cov.setdefault("exhaustive", False)
        if level == "model_checking":
            for k in ("states", "transitions", "traces_validated_against_impl"):
                cov.setdefault(k, 0)
        else:
            for k in ("evaluations", "distinct_nontrivial"):
                cov.setdefault(k, 0)
            cov.setdefault("rule", "")
        ev = {
            "property_id": self.pid,
            "tier": self.tier,
            "seed": self.seed,
            "level": level,
            "coverage": cov,
            "assumptions": self.assumptions,
            "wall_s": round(time.time() - self.t0, 2),
            "violations": len(self.violations),
            "known_findings_reproduced": [{
                "what": self.findings[i]["what"],
                "cases": n
            } for i, n in self.known_hits.items()],
        }
        EVIDENCE_DIR.mkdir(exist_ok=True)
        out = EVIDENCE_DIR / f"{self.pid}.json"
        out.write_text(json.dumps(ev, indent=1, default=str) + "\n")
        ok_schema = validate_evidence(out)

        for i, f in enumerate(self.findings):
            n = self.known_hits.get(i, 0)
            print(f"KNOWN-FINDING: property={self.pid} {f['what']} "
                  f"[{n} case(s) reproduced in this run]")
        for v in self.violations:
            print(f"VIOLATION property={self.pid} replay={v['path']}")
            print(f"  what: {v['what']} (x{v['count']})")
        print(f"[{self.pid}] tier={self.tier} seed={self.seed} "
              f"wall={ev['wall_s']}s violations={len(self.violations)} "
              f"known={sum(self.known_hits.values())} " +
              " ".join(f"{k}={v}" for k, v in cov.items()
                       if isinstance(v, (int, bool))))
        for m in self.harness_errors[:20]:
            print(f"HARNESS-ERROR {m}")
        if not ok_schema:
            print("HARNESS-ERROR evidence file does not validate")
        if self.violations:
            return 1  # a found violation is reported even if something
            # else of the run was cut short
        if self.harness_errors or not ok_schema:
            return 2
        return 0


def validate_evidence(path: Path) -> bool:
    schema = Path("/root/.vp/EVIDENCE.schema.json")
    vt = shutil.which("python3-vt")
    if not schema.is_file() or not vt:
        return True
    code = ("import json,sys,jsonschema;"
            "jsonschema.validate(json.load(open(sys.argv[1])),"
            "json.load(open(sys.argv[2])))")
    r = subprocess.run([vt, "-c", code, str(path), str(schema)],
                       capture_output=True,
                       text=True)
    if r.returncode != 0:
        print(r.stderr[-2000:], file=sys.stderr)
    return r.returncode == 0


# ---------------------------------------------------------------------------
# worker pool (long-lived processes that import sedpack once)
# ---------------------------------------------------------------------------
def quiet_env() -> None:
    os.environ.setdefault("TF_CPP_MIN_LOG_LEVEL", "3")
    os.environ.setdefault("CUDA_VISIBLE_DEVICES", "-1")
    os.environ.setdefault("PYTHONHASHSEED", "0")
    os.environ.setdefault("TF_ENABLE_ONEDNN_OPTS", "0")
    os.environ.setdefault("TQDM_DISABLE", "1")
    os.environ.setdefault("PYTHONWARNINGS", "ignore")
    os.environ["RUST_BACKTRACE"] = "0"


def _silence_tqdm() -> None:
    """check() draws progress bars from worker processes: noise only."""
    import sedpack.io.dataset_writing as dw
    real = dw.tqdm

    def quiet(it, *a, **kw):
        kw["disable"] = True
        return real(it, *a, **kw)

    dw.tqdm = quiet


def _worker_init(paths: list[str]) -> None:
    quiet_env()
    for p in paths:
        if p not in sys.path:
            sys.path.insert(0, p)
    # stderr of TensorFlow's C++ start-up is noise
    try:
        devnull = os.open(os.devnull, os.O_WRONLY)
        saved = os.dup(2)
        os.dup2(devnull, 2)
        try:
            from vf import rustbuild
            rustbuild.load_ext()
            import sedpack.io  # noqa: F401  pylint: disable=unused-import
            _silence_tqdm()
        finally:
            os.dup2(saved, 2)
            os.close(devnull)
            os.close(saved)
    except Exception as e:  # pragma: no cover
        print("worker init failed:", e, file=sys.stderr)
        raise


def pool(workers: int | None = None, need_sedpack: bool = True):
    """ProcessPoolExecutor of spawned workers with sedpack imported."""
    import concurrent.futures as cf
    import multiprocessing as mp
    quiet_env()
    n = workers or min(16, os.cpu_count() or 4)
    init = _worker_init if need_sedpack else None
    args = ([str(VERIF)],) if need_sedpack else ()
    return WatchedPool(cf.ProcessPoolExecutor(
        max_workers=n, mp_context=mp.get_context("spawn"), initializer=init,
        initargs=args))


class WatchedPool:
    """ProcessPoolExecutor whose map() cannot hang forever: a worker that is
    dead-locked inside native code (GIL held, no signal handler can run)
    would otherwise block the whole check."""
    MAP_TIMEOUT = int(os.environ.get("VF_MAP_TIMEOUT", "3600"))

    def __init__(self, ex) -> None:
        self.ex = ex
        self._max_workers = ex._max_workers
        self._killed = False

    def __enter__(self):
        return self

    def __exit__(self, *exc):
        self.shutdown(wait=not self._killed)
        return False

    def submit(self, fn, *a, **kw):
        return self.ex.submit(fn, *a, **kw)

    @property
    def _processes(self):
        return self.ex._processes

    def shutdown(self, wait=True, cancel_futures=False):
        self.ex.shutdown(wait=wait and not self._killed,
                         cancel_futures=cancel_futures or self._killed)

    def kill(self):
        self._killed = True
        for p in list(getattr(self.ex, "_processes", {}).values()):
            try:
                p.kill()
            except Exception:  # pylint: disable=broad-except
                pass

    def map(self, fn, *iterables, chunksize=1, timeout=None):
        import concurrent.futures as cf
        it = self.ex.map(fn, *iterables, chunksize=chunksize,
                         timeout=timeout or self.MAP_TIMEOUT)
        while True:
            try:
                yield next(it)
            except StopIteration:
                return
            except cf.TimeoutError:
                self.kill()
                raise HarnessError(
                    f"a worker process did not return within "
                    f"{timeout or self.MAP_TIMEOUT} s (hung in native code?)"
                ) from None


def import_sedpack_quietly():
    quiet_env()
    devnull = os.open(os.devnull, os.O_WRONLY)
    saved = os.dup(2)
    os.dup2(devnull, 2)
    try:
        from vf import rustbuild
        rustbuild.load_ext()
        import sedpack.io  # noqa: F401
        _silence_tqdm()
    finally:
        os.dup2(saved, 2)
        os.close(devnull)
        os.close(saved)


import concurrent.futures as _cf  # noqa: E402


def _lost(t, how: str, per_task_s: int) -> dict:
    return {"hung": True, "died": how == "died", "args": list(t), "bad": [
        ({"symptom": "hang" if how == "hung" else "worker-died",
          "iface": "any"},
         (f"{t}: the worker did not finish within {per_task_s} s (watchdog "
          f"could not interrupt it)" if how == "hung" else
          f"{t}: the worker process was killed while running this case "
          f"(out of memory or a crash in native code)"), str(t))
    ], "cases": 0, "required": 0, "harness": None}


def run_with_watchdog(fn, tasks, per_task_s: int, ctx=None,
                      stop_after_hang=False):
    """pool.map with a per-task time-out: a hung worker is a finding, the
    pool is rebuilt for the remaining tasks.  A worker process that dies
    (killed for memory, crash in native code) breaks the whole pool: the
    unfinished tasks are then run one by one, each in a pool of its own, so
    that the one that kills its worker is identified."""
    from concurrent.futures.process import BrokenProcessPool
    results = []
    todo = list(tasks)
    alone = False
    while todo:
        ex = pool()
        batch = todo[:1] if alone else todo
        rest = todo[1:] if alone else []
        futs = [(t, ex.submit(fn, t)) for t in batch]
        todo = []
        hung = broken = False
        for t, f in futs:
            if hung or broken:
                if f.done() and not f.exception():
                    results.append((t, f.result()))
                else:
                    todo.append(t)
                continue
            try:
                results.append((t, f.result(timeout=per_task_s)))
            except _cf.TimeoutError:
                hung = True
                results.append((t, _lost(t, "hung", per_task_s)))
            except BrokenProcessPool:
                broken = True
                if alone:
                    results.append((t, _lost(t, "died", per_task_s)))
                else:
                    todo.append(t)
        # a case that reported something may have left threads of the
        # library blocked in its worker (non-daemon: the worker process
        # would never exit and a waiting shutdown would never return)
        n0 = len(results) - len(futs) + len(todo)
        suspicious = any(r.get("bad") for _, r in results[n0:])
        if hung or broken or suspicious:
            ex.kill()
        ex.shutdown(wait=not (hung or broken or suspicious),
                    cancel_futures=True)
        if broken and not alone:
            alone = True  # identify the culprit: one task per pool from now
        todo = todo + rest
        if (hung or (broken and results and results[-1][1].get("died"))
                ) and stop_after_hang:
            break  # the remaining tasks are not run (reported by the caller)
    return results


