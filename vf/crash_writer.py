"""Child process of the crash engine: runs a writer history for real (traced
by strace).  Marker syscalls (mkdir under /proc, which fails harmlessly)
delimit sessions and announce every write_example call."""
import os
import sys
from pathlib import Path


def mark(name: str) -> None:
    try:
        os.mkdir("/proc/vfmark/" + name)
    except OSError:
        pass


def feed_marked(dataset_filler, items):
    from vf import ds as D
    with dataset_filler as f:
        for split, idt in items:
            mark(f"w_{idt[0]}_{idt[1]}_{idt[2]}_{split}")
            f.write_example(values=D.example(idt), split=split)
    return len(items)


HISTORIES = {
    # name: list of sessions (kind, [(split, n)] or writers)
    "root2": [("root", [("train", 3), ("test", 1)]),
              ("root", [("train", 2), ("holdout", 1)])],
    "subs": [("x", [("train", 3)]), ("x/y", [("train", 1), ("test", 2)]),
             ("x", [("train", 1)]),
             ("multi", [[("train", 2)], [("train", 1), ("test", 1)]])],
    # nested sub-directories whose intermediate lists do not exist yet
    "nest": [("root", [("train", 2)]), ("a/b", [("train", 2), ("test", 1)]),
             ("a/c/d", [("train", 1)]), ("e/f", [("test", 1)])],
    "mp": [("root", [("train", 1)]),
           ("mp", [[("train", 3)], [("train", 1), ("test", 2)], []])],
}


def main() -> None:
    fmt, hist, root = sys.argv[1], sys.argv[2], Path(sys.argv[3])
    from vf import core
    core.import_sedpack_quietly()
    from vf import ds as D
    from sedpack.io import Dataset
    from sedpack.io.dataset_filler import DatasetFiller
    mark("create_begin")
    dataset = D.create(root, fmt=fmt, eps=2)
    mark("create_end")
    for s, (kind, spec) in enumerate(HISTORIES[hist]):
        mark(f"begin_{s}")
        if s % 2 == 1:
            dataset = Dataset(root)  # reopened handle
        if kind in ("multi", "mp"):
            writers = [[(split, (s, w, q0 + q))
                        for q0, (split, n) in zip(
                            [sum(m for _, m in parts[:i])
                             for i in range(len(parts))], parts)
                        for q in range(n)]
                       for w, parts in enumerate(spec)]
            dataset.write_multiprocessing(
                feed_writer=feed_marked,
                custom_arguments=[(w,) for w in writers],
                single_process=(kind == "multi"),
            )
        else:
            filler = dataset.filler() if kind == "root" else DatasetFiller(
                dataset, relative_path_from_split=Path(kind))
            items = []
            q = 0
            remaining = dict(spec)
            while any(remaining.values()):
                for split in list(remaining):
                    if remaining[split]:
                        remaining[split] -= 1
                        items.append((split, (s, 0, q)))
                        q += 1
            with filler as f:
                for split, idt in items:
                    mark(f"w_{idt[0]}_{idt[1]}_{idt[2]}_{split}")
                    f.write_example(values=D.example(idt), split=split)
        mark(f"end_{s}")
    mark("done")


if __name__ == "__main__":
    main()
