"""E3: all random choices of shuffle_buffer / round_robin (sync and async).

The real ``itertools.py`` is loaded from /repo's working tree as a stand-alone
module (it needs no TensorFlow); its random sources are replaced by seams that
ask the explorer, so every outcome of every random draw is enumerated.
"""
from __future__ import annotations

import collections
import importlib.util
import time

from vf.core import SRC, HarnessError
from vf.explorer import Explorer, Divergence, FixedChooser

ITERTOOLS = str(SRC / "sedpack" / "io" / "itertools" / "itertools.py")


class Holder:
    chooser = None
    points = 0


class Tok:
    """Random state whose ``% n`` is an explorer choice."""

    def __mod__(self, n):
        Holder.points += 1
        return Holder.chooser.choose(int(n))

    def __mul__(self, other):
        return self

    __rmul__ = __add__ = __radd__ = __mul__

    def __int__(self):
        return 0


class FakeRandom:
    """Stands in for the ``random`` module inside itertools.py."""

    def shuffle(self, lst) -> None:
        # Fisher-Yates: every permutation reachable by exactly one choice path
        for i in range(len(lst) - 1, 0, -1):
            Holder.points += 1
            j = Holder.chooser.choose(i + 1)
            lst[i], lst[j] = lst[j], lst[i]

    def randint(self, a, b):
        if b - a > 64:
            return a
        Holder.points += 1
        return a + Holder.chooser.choose(b - a + 1)

    def randrange(self, a, b=None):
        if b is None:
            a, b = 0, a
        return self.randint(a, b - 1)

    def choice(self, seq):
        Holder.points += 1
        return seq[Holder.chooser.choose(len(seq))]

    def random(self):
        return 0.0

    def seed(self, *a):
        pass


def install_seams(mod) -> None:
    mod.initial_random_state = lambda seed=None: Tok()
    mod.next_random_state = lambda r: r
    mod.random = FakeRandom()


_MOD = None


def module():
    global _MOD
    if _MOD is None:
        spec = importlib.util.spec_from_file_location("vf_sedpack_itertools",
                                                      ITERTOOLS)
        mod = importlib.util.module_from_spec(spec)
        spec.loader.exec_module(mod)
        install_seams(mod)
        _MOD = mod
    return _MOD


# ---------------------------------------------------------------------------
# sources in several presentations, all counting what was drawn from them
# ---------------------------------------------------------------------------
class Count:

    def __init__(self):
        self.drawn = 0
        self.opened = 0


def gen_source(items, cnt):
    for x in items:
        cnt.drawn += 1
        yield x


async def agen_source(items, cnt):
    for x in items:
        cnt.drawn += 1
        yield x


class AIter:
    """Plain async iterator (not an async generator)."""

    def __init__(self, items, cnt):
        self.items = list(items)
        self.i = 0
        self.cnt = cnt

    def __aiter__(self):
        return self

    async def __anext__(self):
        if self.i >= len(self.items):
            raise StopAsyncIteration
        self.i += 1
        self.cnt.drawn += 1
        return self.items[self.i - 1]


class ListLike(list):
    """A list whose iteration is counted."""

    def __init__(self, items, cnt):
        super().__init__(items)
        self.cnt = cnt

    def __iter__(self):
        return gen_source(list.__iter__(self), self.cnt)


def make_source(kind, items, cnt):
    if kind == "list":
        return ListLike(items, cnt)
    if kind == "gen":
        return gen_source(items, cnt)
    if kind == "agen":
        return agen_source(items, cnt)
    if kind == "aiter":
        return AIter(items, cnt)
    raise ValueError(kind)


def drive_async(agen, on_item):
    """Iterate an async generator that never really suspends."""

    async def main():
        async for x in agen:
            on_item(x)

    coro = main()
    try:
        coro.send(None)
    except StopIteration:
        return
    coro.close()
    raise HarnessError("async code under test awaited a real suspension")


# ---------------------------------------------------------------------------
# one execution
# ---------------------------------------------------------------------------
def run_once(cfg: dict, chooser) -> dict:
    """cfg: fn (shuffle_buffer|shuffle_buffer_async|round_robin|
    round_robin_async), src (list|gen|agen|aiter), n or inner (tuple of
    lengths), b, take (None = whole)."""
    mod = module()
    Holder.chooser = chooser
    Holder.points = 0
    fn = cfg["fn"]
    b = cfg["b"]
    take = cfg.get("take")
    out: list = []
    cnt = Count()
    ahead = [0]
    is_async = fn.endswith("_async")

    class Stop(Exception):
        pass

    if fn.startswith("shuffle_buffer"):
        n = cfg["n"]
        items = range(n) if n is not None else _naturals()
        expected = list(range(n)) if n is not None else None
        src = make_source(cfg["src"], items, cnt)

        def on_item(x):
            out.append(x)
            ahead[0] = max(ahead[0], cnt.drawn - len(out))
            if take is not None and len(out) >= take:
                raise Stop()

        it = getattr(mod, fn)(src, b)
    else:
        inner = cfg["inner"]
        rep = cfg.get("repeat_inner")  # infinite stream of inner iterables
        expected = None if rep else [
            (i, j) for i, m in enumerate(inner) for j in range(m)
        ]
        icnt = Count()
        kind = cfg["src"]

        def inner_items():
            i = 0
            while True:
                for i0, m in enumerate(inner):
                    cnt.opened += 1
                    idx = i0 if not rep else i
                    yield make_source(
                        "agen" if is_async else "gen",
                        [(idx, j) for j in range(m)], icnt)
                    i += 1
                if not rep:
                    return

        if is_async:

            async def outer():
                for x in inner_items():
                    yield x

            src = outer() if kind in ("agen", "gen") else AIter(
                list(inner_items()), Count())
        else:
            src = inner_items() if kind in ("gen", "agen") else list(
                inner_items())

        if kind not in ("gen", "agen"):
            cnt.opened = 0  # outer source is not lazy: opens are not counted

        def on_item(x):
            out.append(x)
            ahead[0] = max(ahead[0], cnt.opened)
            if take is not None and len(out) >= take:
                raise Stop()

        it = getattr(mod, fn)(src, b)
    err = None
    try:
        if is_async:
            drive_async(it, on_item)
        else:
            for x in it:
                on_item(x)
    except Stop:
        pass
    except (Divergence, HarnessError):
        raise
    except Exception as e:  # pylint: disable=broad-except
        err = f"{type(e).__name__}: {e}"
    return {
        "out": out,
        "expected": expected,
        "drawn": cnt.drawn,
        "opened": cnt.opened,
        "ahead": ahead[0],
        "err": err,
        "points": Holder.points,
    }


def _naturals():
    i = 0
    while True:
        yield i
        i += 1


def judge(cfg: dict, r: dict) -> list[str]:
    bad = []
    if r["err"]:
        return [f"{cfg['fn']} raised {r['err']}"]
    take = cfg.get("take")
    if take is None:
        if collections.Counter(r["out"]) != collections.Counter(
                r["expected"]):
            missing = collections.Counter(r["expected"]) - collections.Counter(
                r["out"])
            extra = collections.Counter(r["out"]) - collections.Counter(
                r["expected"])
            bad.append(f"{cfg['fn']}(src={cfg['src']}, "
                       f"{'n=%s' % cfg.get('n') if 'n' in cfg else 'inner=%s' % (cfg.get('inner'),)}"
                       f", buffer={cfg['b']}): missing "
                       f"{sorted(missing.elements())} duplicated/foreign "
                       f"{sorted(extra.elements())}")
    else:
        if len(r["out"]) != take and (r["expected"] is None or
                                      len(r["expected"]) >= take):
            bad.append(f"take {take}: got {len(r['out'])} elements")
        if r["expected"] is not None:
            extra = collections.Counter(r["out"]) - collections.Counter(
                r["expected"])
            if extra:
                bad.append(f"take {take}: foreign/duplicated "
                           f"{sorted(extra.elements())}")
        elif len(set(r["out"])) != len(r["out"]):
            bad.append(f"take {take}: duplicates in {r['out']}")
    # C14: read-ahead bounded by the buffer alone (generous cap)
    cap = 4 * cfg["b"] + 8
    if cfg["fn"].startswith("shuffle_buffer"):
        if r["ahead"] > cap:
            bad.append(f"read-ahead {r['ahead']} > cap {cap}")
    elif take is not None:
        cap2 = cap + (take + 1) * len(cfg["inner"])
        if r["opened"] > cap2:
            bad.append(f"opened {r['opened']} inner iterables for {take} "
                       f"elements (cap {cap2})")
    return bad


def explore_config(cfg: dict) -> dict:
    t0 = time.time()
    outcomes = set()
    viol: list[dict] = []
    harness: list[str] = []
    mx = {"ahead": 0, "opened": 0, "points": 0}
    samples = []

    def run(ch):
        return run_once(cfg, ch)

    def on_result(choices, r):
        outcomes.add(tuple(r["out"]))
        mx["ahead"] = max(mx["ahead"], r["ahead"])
        mx["opened"] = max(mx["opened"], r["opened"])
        mx["points"] = max(mx["points"], r["points"])
        if len(samples) < 1:
            samples.append({"choices": choices[:30], "output": r["out"][:20]})
        bad = judge(cfg, r)
        if bad and len(viol) < 3:
            again = replay_case(cfg, choices)
            if again == bad:
                viol.append({"choices": choices, "what": bad})
            else:
                harness.append(f"NONDETERMINISM {cfg} {choices}")

    ex = Explorer(run, bound=cfg.get("bound"), cache=False,
                  max_executions=cfg.get("max_exec", 400000))
    try:
        ex.explore(on_result)
    except (Divergence, HarnessError) as d:
        harness.append(f"{type(d).__name__} {cfg}: {d}")
    st = ex.stats()
    st.update(cfg=cfg, distinct_outputs=len(outcomes), violations=viol,
              harness=harness, max_ahead=mx["ahead"], max_opened=mx["opened"],
              choice_points=mx["points"], samples=samples,
              wall_s=round(time.time() - t0, 2))
    return st


def explore_many(cfgs: list[dict]) -> list[dict]:
    return [explore_config(c) for c in cfgs]


def replay_case(cfg: dict, choices: list[int]) -> list[str]:
    return judge(cfg, run_once(cfg, FixedChooser(choices)))
