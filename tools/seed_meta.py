#!/venv/bin/python
"""usage: seed_meta.py <seed-id> <property> <caught_by csv> <needs text> [note]
Writes /verif/seeded/<seed-id>/meta.json from the trial outputs."""
import json, sys, glob, os
sid, prop, caught, needs = sys.argv[1:5]
note = sys.argv[5] if len(sys.argv) > 5 else ""
d = f"/verif/seeded/{sid}"
def rd(n):
    p = os.path.join(d, n)
    return open(p).read().strip().splitlines()[-3:] if os.path.exists(p) else []
checks = {}
for f in sorted(glob.glob(d + "/check_*.txt")):
    c = os.path.basename(f)[6:-4]
    txt = open(f).read()
    checks[c] = {"violation_lines": txt.count("\nVIOLATION") + txt.startswith("VIOLATION"),
                 "first": next((l.strip()[:300] for l in txt.splitlines() if l.strip().startswith("what:")), None)}
meta = {
    "seed_id": sid, "breaks_property": prop, "needs_to_manifest": needs,
    "source": "independent sub-agent given only the property text and a scratch worktree",
    "confirmed": {"demo_with_change": rd("demo_with.txt"), "demo_without_change": rd("demo_without.txt"),
                  "suite_with_change": rd("suite.txt")},
    "ran": "tools/try_mutant.sh: demo with/without the change in the scratch worktree, full pytest suite with the change, "
           "then git -C /repo apply patch.diff; quick checks; git -C /repo checkout -- .",
    "checks_run": checks, "caught_by": [c for c in caught.split(",") if c], "note": note,
}
json.dump(meta, open(d + "/meta.json", "w"), indent=1)
print(sid, "->", meta["caught_by"])
