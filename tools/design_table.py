#!/venv/bin/python
"""Rewrites the seeded-changes table of DESIGN.md from seeded/*/meta.json."""
import glob, json, re
rows = ["| seed | breaks | what it needs to manifest | caught by | note |",
        "|------|--------|---------------------------|-----------|------|"]
for f in sorted(glob.glob("/verif/seeded/*/meta.json")):
    m = json.load(open(f))
    caught = ", ".join(m["caught_by"]) or "**none**"
    rows.append(f"| {m['seed_id']} | {m['breaks_property']} | {m['needs_to_manifest']} | {caught} | {m.get('note','')} |")
p = "/verif/DESIGN.md"
s = open(p).read()
s = re.sub(r"<!-- SEEDED-TABLE-BEGIN -->.*<!-- SEEDED-TABLE-END -->",
           "<!-- SEEDED-TABLE-BEGIN -->\n" + "\n".join(rows) + "\n<!-- SEEDED-TABLE-END -->", s, flags=re.S)
open(p, "w").write(s)
print(len(rows) - 2, "seeded changes in the table")
