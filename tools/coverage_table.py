#!/venv/bin/python
"""Rewrites the measured-coverage table of DESIGN.md (section 10.1) from the
evidence files of the last runs."""
import json, glob, re
rows = []
for f in sorted(glob.glob("/verif/evidence/C*.json")):
    d = json.load(open(f))
    c = d["coverage"]
    keys = ("states", "transitions", "traces_validated_against_impl",
            "evaluations", "distinct_nontrivial", "sessions_executed",
            "complete_executions", "configurations_complete",
            "configurations_bounded")
    nums = ", ".join(f"{k.replace('_', ' ')} {c[k]:,}".replace(",", " ")
                     for k in keys if k in c)
    parts = c.get("parts", {})
    pn = "; ".join(list(parts)[:4])
    if len(parts) > 4:
        pn += f"; ... ({len(parts)} parts)"
    rows.append(f"| {d['property_id'] if 'property_id' in d else f[-8:-5]} | "
                f"{d.get('tier', '?')} | {nums} | {pn[:330]} | "
                f"{d.get('wall_s', d.get('wall', '?'))} s |")
table = ("<!-- COVERAGE-TABLE-BEGIN -->\n| id | tier | counters of the last "
         "run | parts (first four) | wall |\n|----|------|-----|-----|------|\n"
         + "\n".join(rows) + "\n<!-- COVERAGE-TABLE-END -->")
p = "/verif/DESIGN.md"
s = open(p).read()
if "<!-- COVERAGE-TABLE-BEGIN -->" in s:
    s = re.sub(r"<!-- COVERAGE-TABLE-BEGIN -->.*?<!-- COVERAGE-TABLE-END -->",
               lambda m: table, s, flags=re.S)
else:
    i = s.index("| id | what one quick run explores | wall |")
    j = s.index("\n\n", i)
    s = s[:i] + table + s[j:]
open(p, "w").write(s)
print(len(rows), "rows")
