#!/bin/bash
# usage: try_mutant.sh <worktree> <seed-id> <check ids...>
# Confirms a seeded change (demo fails with / passes without, suite passes),
# stores it under /verif/seeded/<seed-id>/ and runs the given checks on /repo
# with the change applied (undone afterwards).
set -u
WT=$1; SID=$2; shift 2
OUT=/verif/seeded/$SID; mkdir -p $OUT
cd $WT || exit 2
git diff > $OUT/patch.diff
[ -s $OUT/patch.diff ] || { echo "empty patch"; exit 2; }
cp demo.py $OUT/demo.py 2>/dev/null; cp MUTANT.md $OUT/MUTANT.md 2>/dev/null
echo "== demo with change"; (cd $WT && PYTHONPATH=$WT/src timeout 600 /venv/bin/python demo.py > $OUT/demo_with.txt 2>&1; echo "exit $?" | tee -a $OUT/demo_with.txt); tail -3 $OUT/demo_with.txt
git apply -R $OUT/patch.diff || { echo "cannot revert patch"; exit 2; }   # (git stash is shared between worktrees)
echo "== demo without change"; (cd $WT && PYTHONPATH=$WT/src timeout 600 /venv/bin/python demo.py > $OUT/demo_without.txt 2>&1; echo "exit $?" | tee -a $OUT/demo_without.txt); tail -2 $OUT/demo_without.txt
git apply $OUT/patch.diff || { echo "cannot re-apply patch"; exit 2; }
echo "== suite with change"; (cd $WT && PYTHONPATH=$WT/src timeout 1800 /venv/bin/python -m pytest -q -p no:cacheprovider -n 8 tests 2>&1 | tail -1 | tee $OUT/suite.txt)
# only apply if /repo is clean
[ -z "$(git -C /repo status --porcelain)" ] || { echo "/repo dirty"; exit 2; }
# /repo is restored on every way out of this script (an interrupted run once
# left a seeded change behind in /repo, where a snapshot then committed it)
restore_repo() { git -C /repo checkout -- . ; git -C /repo status --porcelain; }
trap restore_repo EXIT
trap 'exit 130' INT TERM HUP
git -C /repo apply $OUT/patch.diff || { echo "patch does not apply to /repo"; exit 2; }
cd /verif
: > $OUT/checks.txt
for c in "$@"; do
  echo "== check $c"; timeout 2400 /venv/bin/python -u -m vf $c --tier quick > $OUT/check_$c.txt 2>&1; rc=$?
  echo "$c exit=$rc $(grep -c '^VIOLATION' $OUT/check_$c.txt) violation lines" | tee -a $OUT/checks.txt
  grep -A1 '^VIOLATION' $OUT/check_$c.txt | head -4 | cut -c1-400
  grep '^HARNESS' $OUT/check_$c.txt | head -3 | cut -c1-300
done
