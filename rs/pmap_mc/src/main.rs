// Gate harness for /repo/rust/src/parallel_map.rs (always the working tree:
// the file is included by path).  One process run = one execution under a
// given prefix of completion-order choices.  Usage:
//   pmap_mc <n> <threads> <drop_after|-1> <panic_item|-1> <c0,c1,...>
// Prints one JSON line describing the execution.
#[path = "/repo/rust/src/parallel_map.rs"]
#[allow(dead_code)]
mod parallel_map;

use std::sync::atomic::{AtomicBool, AtomicUsize, Ordering};
use std::sync::{Condvar, Mutex};

struct Gate {
    entered: Vec<u32>,
    released: Vec<bool>,
    exited: usize,
    panic_item: i64,
}

static GATE: Mutex<Option<Gate>> = Mutex::new(None);
static CV: Condvar = Condvar::new();
static PULLS: AtomicUsize = AtomicUsize::new(0);
static EVENTS: AtomicUsize = AtomicUsize::new(0);
static OUTS: AtomicUsize = AtomicUsize::new(0);
static MAX_AHEAD: AtomicUsize = AtomicUsize::new(0);
static DROPPING: AtomicBool = AtomicBool::new(false);

fn fun(x: u32) -> u32 {
    let mut g = GATE.lock().unwrap();
    g.as_mut().unwrap().entered.push(x);
    EVENTS.fetch_add(1, Ordering::SeqCst);
    while !g.as_ref().unwrap().released[x as usize] {
        g = CV.wait(g).unwrap();
    }
    let p = g.as_ref().unwrap().panic_item == x as i64;
    g.as_mut().unwrap().exited += 1;
    EVENTS.fetch_add(1, Ordering::SeqCst);
    drop(g);
    if p {
        panic!("item {} fails", x);
    }
    x + 100
}

struct Src {
    i: u32,
    n: u32,
}

impl Iterator for Src {
    type Item = u32;
    fn next(&mut self) -> Option<u32> {
        PULLS.fetch_add(1, Ordering::SeqCst);
        EVENTS.fetch_add(1, Ordering::SeqCst);
        if self.i < self.n {
            self.i += 1;
            let ahead = (self.i as usize).saturating_sub(OUTS.load(Ordering::SeqCst));
            MAX_AHEAD.fetch_max(ahead, Ordering::SeqCst);
            Some(self.i - 1)
        } else {
            None
        }
    }
}

fn my_tid() -> String {
    std::fs::read_link("/proc/thread-self")
        .map(|p| p.file_name().unwrap().to_string_lossy().to_string())
        .unwrap_or_default()
}

/// (all other threads sleeping, number of threads)
fn others_sleeping(me: &str) -> (bool, usize) {
    let mut n = 0;
    let mut all = true;
    if let Ok(rd) = std::fs::read_dir("/proc/self/task") {
        for e in rd.flatten() {
            let tid = e.file_name().to_string_lossy().to_string();
            n += 1;
            if tid == me {
                continue;
            }
            let stat = std::fs::read_to_string(e.path().join("stat")).unwrap_or_default();
            // state is the first field after the last ')'
            let st = stat.rsplit(')').next().unwrap_or("").trim_start().chars().next();
            match st {
                Some('S') | None => {}
                Some('Z') | Some('X') => {}
                _ => all = false,
            }
        }
    }
    (all, n)
}

fn wait_quiescent(me: &str, max_threads: &mut usize) -> bool {
    let mut stable = 0;
    let mut last = EVENTS.load(Ordering::SeqCst);
    let start = std::time::Instant::now();
    loop {
        std::thread::sleep(std::time::Duration::from_micros(120));
        let (s, n) = others_sleeping(me);
        if n > *max_threads {
            *max_threads = n;
        }
        let ev = EVENTS.load(Ordering::SeqCst);
        if s && ev == last {
            stable += 1;
            if stable >= 6 {
                return true;
            }
        } else {
            stable = 0;
            last = ev;
        }
        if start.elapsed().as_secs() > 20 {
            return false;
        }
    }
}

fn main() {
    let a: Vec<String> = std::env::args().collect();
    let n: u32 = a[1].parse().unwrap();
    let threads: usize = a[2].parse().unwrap();
    let drop_after: i64 = a[3].parse().unwrap();
    let panic_item: i64 = a[4].parse().unwrap();
    let prefix: Vec<usize> = if a.len() > 5 && !a[5].is_empty() {
        a[5].split(',').map(|x| x.parse().unwrap()).collect()
    } else {
        vec![]
    };
    // silence the panic message of the deliberately failing item
    std::panic::set_hook(Box::new(|_| {}));
    *GATE.lock().unwrap() = Some(Gate {
        entered: vec![],
        released: vec![false; n as usize + 1],
        exited: 0,
        panic_item,
    });
    let me = my_tid();
    let (_, base_threads) = others_sleeping(&me);
    let consumer = std::thread::spawn(move || {
        let mut pm = parallel_map::parallel_map(fun, Src { i: 0, n }, threads);
        let mut out: Vec<u32> = vec![];
        let mut ended = false;
        loop {
            if drop_after >= 0 && out.len() as i64 >= drop_after {
                break;
            }
            match pm.next() {
                Some(v) => {
                    out.push(v);
                    OUTS.fetch_add(1, Ordering::SeqCst);
                    EVENTS.fetch_add(1, Ordering::SeqCst);
                }
                None => {
                    ended = true;
                    break;
                }
            }
        }
        DROPPING.store(true, Ordering::SeqCst);
        EVENTS.fetch_add(1, Ordering::SeqCst);
        drop(pm);
        (out, ended)
    });
    let mut choices: Vec<usize> = vec![];
    let mut ns: Vec<usize> = vec![];
    let mut max_threads = 0usize;
    let mut deadlock = false;
    let mut divergence = false;
    let mut timeout = false;
    let mut released_after_drop = 0usize;
    // "slow partners": hold every release back for this long, so that any
    // wait with a (shorter) time-out inside the code under test expires
    // before the item it waits for is released
    let hold_ms: u64 = std::env::var("PMAP_HOLD_MS")
        .ok()
        .and_then(|v| v.parse().ok())
        .unwrap_or(0);
    loop {
        if !wait_quiescent(&me, &mut max_threads) {
            timeout = true;
            break;
        }
        if hold_ms > 0 && !consumer.is_finished() {
            std::thread::sleep(std::time::Duration::from_millis(hold_ms));
            if !wait_quiescent(&me, &mut max_threads) {
                timeout = true;
                break;
            }
        }
        let mut enabled: Vec<u32> = {
            let g = GATE.lock().unwrap();
            let gg = g.as_ref().unwrap();
            gg.entered.iter().cloned().filter(|x| !gg.released[*x as usize]).collect()
        };
        enabled.sort();
        if enabled.is_empty() {
            if !consumer.is_finished() {
                deadlock = true;
            }
            break;
        }
        let pos = choices.len();
        let c = if pos < prefix.len() { prefix[pos] } else { 0 };
        if c >= enabled.len() {
            divergence = true;
            break;
        }
        choices.push(c);
        ns.push(enabled.len());
        if DROPPING.load(Ordering::SeqCst) {
            released_after_drop += 1;
        }
        {
            let mut g = GATE.lock().unwrap();
            g.as_mut().unwrap().released[enabled[c] as usize] = true;
            EVENTS.fetch_add(1, Ordering::SeqCst);
        }
        CV.notify_all();
    }
    let fmt = |v: &Vec<usize>| v.iter().map(|x| x.to_string()).collect::<Vec<_>>().join(",");
    let mut out_s = String::from("null");
    let mut ended = false;
    let mut consumer_panicked = false;
    if !deadlock && !timeout && !divergence {
        match consumer.join() {
            Ok((out, e)) => {
                out_s = format!(
                    "[{}]",
                    out.iter().map(|x| x.to_string()).collect::<Vec<_>>().join(",")
                );
                ended = e;
            }
            Err(_) => consumer_panicked = true,
        }
    }
    // after the drop every thread of the map must be gone
    let mut leftover = 0usize;
    if !deadlock && !timeout && !divergence {
        for _ in 0..50 {
            let (_, nthreads) = others_sleeping(&me);
            leftover = nthreads.saturating_sub(base_threads);
            if leftover == 0 {
                break;
            }
            std::thread::sleep(std::time::Duration::from_millis(2));
        }
    }
    println!(
        "{{\"choices\":[{}],\"ns\":[{}],\"out\":{},\"ended\":{},\"pulls\":{},\"max_ahead\":{},\"deadlock\":{},\"divergence\":{},\"timeout\":{},\"consumer_panicked\":{},\"max_threads\":{},\"leftover_threads\":{},\"released_after_drop\":{}}}",
        fmt(&choices), fmt(&ns), out_s, ended, PULLS.load(Ordering::SeqCst),
        MAX_AHEAD.load(Ordering::SeqCst), deadlock, divergence, timeout, consumer_panicked,
        max_threads, leftover, released_after_drop
    );
    std::process::exit(0);
}
